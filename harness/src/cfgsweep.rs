//! C06, constructor clause: Config::new_lan / new_wan for boundary, random or ALL NonZeroU32 cluster sizes.
use std::num::NonZeroU32;
use std::panic::{catch_unwind, AssertUnwindSafe};

use foca::Config;
use rand::{rngs::SmallRng, Rng, SeedableRng};
use serde_json::json;

use crate::node::TraceWriter;

#[derive(Default, Clone, Copy)]
struct Acc {
    count: u64,
    panics: u64,
    min_maxtx: u32,
    max_maxtx: u32,
    min_s2d_ms: u128,
}

fn one(n: u32, acc: &mut Acc) {
    let nz = NonZeroU32::new(n).unwrap();
    for wan in [false, true] {
        acc.count += 1;
        match catch_unwind(AssertUnwindSafe(|| if wan { Config::new_wan(nz) } else { Config::new_lan(nz) })) {
            Ok(c) => {
                let tx = c.max_transmissions.get() as u32;
                acc.min_maxtx = acc.min_maxtx.min(tx);
                acc.max_maxtx = acc.max_maxtx.max(tx);
                acc.min_s2d_ms = acc.min_s2d_ms.min(c.suspect_to_down_after.as_millis());
                if c.probe_rtt >= c.probe_period {
                    acc.panics += 1; // counted as "illegal config"
                }
            }
            Err(_) => acc.panics += 1,
        }
    }
}

pub fn run(seed: u64, full: bool, tw: &mut TraceWriter) -> u64 {
    let fresh = Acc { count: 0, panics: 0, min_maxtx: u32::MAX, max_maxtx: 0, min_s2d_ms: u128::MAX };
    let mut total = fresh;
    tw.env("reset", 0, json!({"run": 0, "driver": "cfgsweep"}));
    if full {
        let threads = 16u64;
        let span = (u32::MAX as u64) / threads + 1;
        let handles: Vec<_> = (0..threads)
            .map(|t| {
                std::thread::spawn(move || {
                    let mut acc = fresh;
                    let lo = (t * span).max(1);
                    let hi = ((t + 1) * span).min(u32::MAX as u64 + 1);
                    let mut n = lo;
                    while n < hi {
                        one(n as u32, &mut acc);
                        n += 1;
                    }
                    acc
                })
            })
            .collect();
        for h in handles {
            let a = h.join().unwrap();
            total.count += a.count;
            total.panics += a.panics;
            total.min_maxtx = total.min_maxtx.min(a.min_maxtx);
            total.max_maxtx = total.max_maxtx.max(a.max_maxtx);
            total.min_s2d_ms = total.min_s2d_ms.min(a.min_s2d_ms);
        }
    } else {
        let mut r = SmallRng::seed_from_u64(seed);
        let mut vals: Vec<u32> = vec![1, 2, 3, 8, 9, 10, 11, 99, 100, 101, 999, 1000, 65535, 65536, 1 << 24, u32::MAX - 1, u32::MAX];
        for p in 0..32u32 {
            vals.push(1u32 << p);
            vals.push((1u32 << p).wrapping_sub(1).max(1));
        }
        for e in 1..10u32 {
            let v = 10u32.pow(e);
            vals.extend([v - 1, v, v + 1]);
        }
        for _ in 0..200_000 {
            vals.push(r.random_range(1..=u32::MAX));
        }
        for v in vals {
            one(v, &mut total);
        }
    }
    tw.env("group", 0, json!({"prop": "C06", "kind": "cfgsweep", "full": full, "count": total.count.min(2_000_000_000),
        "panics": total.panics, "min_maxtx": total.min_maxtx, "max_maxtx": total.max_maxtx,
        "min_s2d_ms": (total.min_s2d_ms.min(2_000_000_000)) as u64}));
    total.count
}
