//! C11 driver: the suspicion-timeout case table on the real code.  For every combination of what the
//! instance records for the timer's address (nothing / Alive / Suspect / Down, at an incarnation below,
//! equal to or above the timer's, under an older, the same or a newer generation), connected with or
//! without another member, notify_down_members on or off, timer token current or stale: fire the timeout,
//! then a late refutation, the forget-timer of another identity and the identity's own forget-timer.
use foca::{Member, State, Timer};
use serde_json::json;

use crate::codec::{CodecKind, Mode};
use crate::handler::HandlerCfg;
use crate::id::{Id, Policy};
use crate::node::{Call, Cfg, Node, NodeCfg, TraceWriter};

pub fn run(tw: &mut TraceWriter) -> u64 {
    let mut cases = 0u64;
    let target = Id::new(2, 1);
    let tinc = 1u16;
    for g in [0u16, 1, 2] {
        for st in [None, Some(State::Alive), Some(State::Suspect), Some(State::Down)] {
            for inc in [0u16, 1, 2] {
                if st.is_none() && (inc != 0 || g != 0) {
                    continue;
                }
                for stale in [false, true] {
                    for notify in [false, true] {
                        for with_other in [false, true] {
                            tw.env("reset", 0, json!({"run": cases, "driver": "c11", "ordered": true}));
                            let mut cfg = Cfg::default();
                            cfg.notifydown = notify;
                            cfg.rda = 1000;
                            let ncfg = NodeCfg { id: Id::with(1, 0, Policy::None), cfg, codec: CodecKind::Hand(Mode::Fixed),
                                                 handler: HandlerCfg::default(), seed: cases, twin: false };
                            let mut node = Node::new(0, ncfg, tw, 0);
                            let mut ups = vec![];
                            if with_other {
                                ups.push(Member::new(Id::new(3, 0), 0, State::Alive));
                            }
                            if let Some(s) = st {
                                ups.push(Member::new(Id::new(2, g), inc, s));
                            }
                            if !ups.is_empty() {
                                node.call(&Call::ApplyMany(ups, false), tw, 10);
                            }
                            let tok = node.foca.verif_snapshot().timer_token;
                            let tok = if stale { tok.wrapping_sub(1) } else { tok };
                            node.call(&Call::Timer(Timer::ChangeSuspectToDown { member_id: target, incarnation: tinc, token: tok }), tw, 3000);
                            // afterwards: a late refutation, another identity's forget-timer, the identity's own
                            node.call(&Call::ApplyMany(vec![Member::new(target, 2, State::Alive)], true), tw, 3100);
                            node.call(&Call::Timer(Timer::RemoveDown(Id::new(2, (g + 1) % 3))), tw, 3200);
                            node.call(&Call::Timer(Timer::RemoveDown(target)), tw, 4000);
                            node.call(&Call::ApplyMany(vec![Member::new(target, 0, State::Alive)], true), tw, 4100);
                            cases += 1;
                        }
                    }
                }
            }
        }
    }
    tw.env("end", 0, json!({}));
    cases
}
