//! Scripted BroadcastHandler: items are `[key, version, filler..]`.
use foca::{BroadcastHandler, Invalidates};
use std::collections::HashMap;

use crate::codec::{parse_item, Item};
use crate::id::Id;

#[derive(Clone, Copy, Debug, PartialEq, Eq)]
pub enum InvRel {
    /// invalidates every entry with the same key
    SameKey,
    /// invalidates entries with the same key and a version <= its own
    NewerOrEqual,
    /// never invalidates anything
    Never,
}
impl InvRel {
    pub fn name(self) -> &'static str {
        match self {
            InvRel::SameKey => "samekey",
            InvRel::NewerOrEqual => "newer",
            InvRel::Never => "never",
        }
    }
}

#[derive(Clone, Copy, Debug, PartialEq, Eq)]
pub enum Pred {
    All,
    EvenAddr,
    Nobody,
}
impl Pred {
    pub fn name(self) -> &'static str {
        match self {
            Pred::All => "all",
            Pred::EvenAddr => "even",
            Pred::Nobody => "nobody",
        }
    }
    pub fn eval(self, id: &Id) -> bool {
        match self {
            Pred::All => true,
            Pred::EvenAddr => id.addr % 2 == 0,
            Pred::Nobody => false,
        }
    }
}

#[derive(Clone, Copy, Debug, PartialEq, Eq)]
pub enum Accept {
    /// keep iff the version is higher than the highest seen for the key
    Newer,
    /// keep everything that is intact (deliberately wasteful handler)
    Everything,
    /// keep nothing
    Nothing,
    /// reject every item with an error (like NoCustomBroadcast)
    Disabled,
}
impl Accept {
    pub fn name(self) -> &'static str {
        match self {
            Accept::Newer => "newer",
            Accept::Everything => "everything",
            Accept::Nothing => "nothing",
            Accept::Disabled => "disabled",
        }
    }
}

#[derive(Clone, Copy, Debug)]
pub struct HandlerCfg {
    pub rel: InvRel,
    pub pred: Pred,
    pub accept: Accept,
}
impl Default for HandlerCfg {
    fn default() -> Self {
        HandlerCfg { rel: InvRel::SameKey, pred: Pred::All, accept: Accept::Newer }
    }
}

#[derive(Clone, Debug)]
pub struct BKey {
    pub key: u8,
    pub ver: u8,
    pub rel: InvRel,
}
impl Invalidates for BKey {
    fn invalidates(&self, other: &Self) -> bool {
        match self.rel {
            InvRel::SameKey => self.key == other.key,
            InvRel::NewerOrEqual => self.key == other.key && self.ver >= other.ver,
            InvRel::Never => false,
        }
    }
}

#[derive(Debug)]
pub struct HErr;
impl std::fmt::Display for HErr {
    fn fmt(&self, f: &mut std::fmt::Formatter<'_>) -> std::fmt::Result {
        f.write_str("handler error")
    }
}
impl std::error::Error for HErr {}

/// verdict: 0 = discard, 1 = keep, 2 = error
#[derive(Clone, Debug)]
pub struct HLog {
    pub item: Item,
    pub sender: Option<Id>,
    pub verdict: u8,
}

pub struct Handler {
    pub cfg: HandlerCfg,
    pub seen: HashMap<u8, u8>,
    pub log: std::cell::RefCell<Vec<HLog>>,
}

impl Handler {
    pub fn new(cfg: HandlerCfg) -> Self {
        Handler { cfg, seen: HashMap::new(), log: Default::default() }
    }
    pub fn take_log(&self) -> Vec<HLog> {
        std::mem::take(&mut *self.log.borrow_mut())
    }
}

impl BroadcastHandler<Id> for Handler {
    type Key = BKey;
    type Error = HErr;

    fn receive_item(&mut self, data: &[u8], sender: Option<&Id>) -> Result<Option<BKey>, HErr> {
        let item = parse_item(data);
        // key 255 always errors; a damaged item errors too
        let verdict = if self.cfg.accept == Accept::Disabled || item.key == 255 || !item.intact {
            2
        } else {
            match self.cfg.accept {
                Accept::Newer => {
                    let known = self.seen.get(&item.key).copied();
                    if known.is_none_or(|k| item.ver > k) {
                        self.seen.insert(item.key, item.ver);
                        1
                    } else {
                        0
                    }
                }
                Accept::Everything => 1,
                _ => 0,
            }
        };
        self.log.borrow_mut().push(HLog { item: item.clone(), sender: sender.copied(), verdict });
        match verdict {
            2 => Err(HErr),
            1 => Ok(Some(BKey { key: item.key, ver: item.ver, rel: self.cfg.rel })),
            _ => Ok(None),
        }
    }

    fn should_add_broadcast_data(&self, member: &Id) -> bool {
        self.cfg.pred.eval(member)
    }
}
