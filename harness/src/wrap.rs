//! wrap driver: long histories that cross the wrap-around of the timer token (u8) at every site that starts a
//! new epoch - going idle (become_disconnected), identity changes / renewals / reuse_down_identity (reset) and
//! becoming defunct (become_undead) - while timers are delivered in deadline order, each at most once and never
//! later than 200 epochs after they were issued (the premise of C13: fewer epoch changes than the token is wide).
use foca::{Member, State, Timer};
use rand::{rngs::SmallRng, Rng, SeedableRng};
use serde_json::json;

use crate::codec::{CodecKind, Mode};
use crate::handler::HandlerCfg;
use crate::id::{Id, Policy};
use crate::node::{Call, Cfg, Effect, Node, NodeCfg, TraceWriter};

struct Pending {
    timer: Timer<Id>,
    due: u64,
    seq: u64,
    epoch: u64,
}

pub fn run(seed: u64, runs: usize, steps: usize, tw: &mut TraceWriter) -> (u64, u64, [u64; 3]) {
    let mut master = SmallRng::seed_from_u64(seed);
    let mut wraps = 0u64;
    let mut bumps = 0u64;
    let mut by_site = [0u64; 3];
    for run in 0..runs {
        let mut r = SmallRng::seed_from_u64(master.random());
        let pol = [Policy::Next, Policy::None, Policy::Next, Policy::Cycle][run % 4];
        let mut cfg = Cfg::default();
        cfg.notifydown = r.random_range(0..2) == 0;
        cfg.rda = 2000;
        cfg.s2d = 3000;
        if r.random_range(0..2) == 0 {
            cfg.pa = Some((4000, 1));
        }
        if r.random_range(0..2) == 0 {
            cfg.pg = Some((2000, 2));
        }
        tw.env("reset", 0, json!({"run": run, "driver": "wrap", "ordered": true}));
        let ncfg = NodeCfg { id: Id::with(1, 0, pol), cfg, codec: CodecKind::Hand(Mode::Fixed),
                             handler: HandlerCfg::default(), seed: r.random(), twin: false };
        let mut node = Node::new(0, ncfg, tw, 0);
        let mut now = 0u64;
        let mut seq = 0u64;
        let mut epoch = 0u64;
        let mut pending: Vec<Pending> = vec![];
        let mut peer_gen = 0u16;
        let mut step = 0usize;
        let mut stop_at = steps;        // a run ends 60 steps after its first wrap-around (or after `steps`)
        while step < stop_at && !node.poisoned {
            step += 1;
            now += r.random_range(1..50);
            let before = node.foca.verif_snapshot().timer_token;
            let choice = r.random_range(0..100);
            let own = node.id();
            let peer = Id::new(2, peer_gen);
            // the site that takes the token over the wrap-around is chosen per run: going idle (0),
            // reset through an identity change (1), becoming defunct (2)
            let site = run % 3;
            let snap = node.foca.verif_snapshot();
            let undead = snap.connection_state == 2;
            let steer: Option<Call> = if before == u8::MAX {
                match site {
                    0 => Some(if snap.num_active > 0 {
                        Call::ApplyMany(vec![Member::new(peer, 0, State::Down)], true)
                    } else if snap.members.iter().any(|m| m.id().addr == 2) {
                        Call::Timer(Timer::RemoveDown(*snap.members.iter().find(|m| m.id().addr == 2).unwrap().id()))
                    } else {
                        Call::ApplyMany(vec![Member::new(peer, 0, State::Alive)], true)
                    }),
                    1 => Some(if undead { Call::Reuse } else { Call::ChangeId(Id::with(own.addr, own.gen.wrapping_add(1) % 1000, own.pol)) }),
                    _ => Some(if undead { Call::Reuse } else { Call::Leave }),
                }
            } else if before >= 250 && undead && site != 1 {
                Some(Call::Reuse)       // be alive again before the token reaches its maximum
            } else {
                None
            };
            let no_undead = site == 0 && before >= 240;     // runs of site 0 stay alive near the wrap-around
            let steered = steer.is_some() && before == u8::MAX;
            let call = if let Some(c) = steer {
                c
            } else if choice < 25 && !pending.is_empty() {
                // the earliest pending timer (ties: Timer's own order, then issue order)
                let mut best = 0;
                for (j, p) in pending.iter().enumerate() {
                    let b = &pending[best];
                    if (p.due, &p.timer, p.seq) < (b.due, &b.timer, b.seq) {
                        best = j;
                    }
                }
                let p = pending.swap_remove(best);
                now = now.max(p.due);
                Call::Timer(p.timer)
            } else if choice < 45 {
                Call::ApplyMany(vec![Member::new(peer, 0, State::Alive)], true)
            } else if choice < 65 {
                // the only active member goes down: the instance goes idle (a new epoch)
                Call::ApplyMany(vec![Member::new(peer, 0, State::Down)], true)
            } else if choice < 72 {
                // its record is forgotten, a new generation of the peer can join
                peer_gen = (peer_gen + 1) % 3;
                Call::Timer(Timer::RemoveDown(peer))
            } else if choice < 80 {
                Call::ChangeId(Id::with(own.addr, own.gen.wrapping_add(1) % 1000, own.pol))
            } else if no_undead {
                Call::Gossip
            } else if choice < 86 {
                Call::Leave
            } else if choice < 92 {
                Call::Reuse
            } else if choice < 97 {
                // told it is down: renewal (a new epoch through reset) or defunct (become_undead)
                Call::ApplyMany(vec![Member::new(own, 0, State::Down)], true)
            } else {
                Call::Gossip
            };
            let out = node.call(&call, tw, now);
            let after = node.foca.verif_snapshot().timer_token;
            let d = after.wrapping_sub(before) as u64;
            if d > 0 {
                bumps += d;
                if after < before {
                    wraps += 1;
                    stop_at = stop_at.min(step + 60);
                    if steered {
                        by_site[site] += 1;
                    }
                }
                epoch += d;
            }
            for e in out.effects {
                if let Effect::Timer { timer, after } = e {
                    seq += 1;
                    pending.push(Pending { timer, due: now + after.as_millis() as u64, seq, epoch });
                }
            }
            // the environment never delivers a timer 200 or more epochs after it was issued
            pending.retain(|p| matches!(p.timer, Timer::RemoveDown(_)) || epoch - p.epoch < 200);
        }
        tw.env("end", now, json!({"run": run}));
    }
    (wraps, bumps, by_site)
}
