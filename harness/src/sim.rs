//! Cluster simulator: N real instances, an integer-millisecond clock, one event queue holding
//! datagrams in flight and pending timers (ordered by deadline, then `Timer`'s own order, then
//! issue order - like the example agent), per-message latencies, and fault injection: dropping a
//! datagram by index, crashing / leaving at an event index, partitions.
//! Every call goes through `Node::call`, so a run is an ordinary trace of the harness, either
//! complete (for conformance) or "lite" (what the cluster monitors need).
use std::cmp::Ordering;
use std::collections::{BinaryHeap, HashSet};

use foca::{Message, Timer};
use rand::{rngs::SmallRng, Rng, SeedableRng};
use serde_json::{json, Value};

use crate::codec::{self, CodecKind};
use crate::handler::HandlerCfg;
use crate::id::{Id, Policy};
use crate::node::{id_json, Call, Cfg, Effect, Node, NodeCfg, Res, TraceWriter};

#[derive(Clone, Debug)]
pub struct SimCfg {
    pub n: usize,
    pub cfg: Cfg,
    pub codec: CodecKind,
    pub handler: HandlerCfg,
    pub pol: Policy,
    pub seed: u64,
    /// per message latency drawn uniformly from [lat.0, lat.1] (ms)
    pub lat: (u64, u64),
    /// timers fire this much late at most (ms), drawn per timer
    pub late: u64,
}

enum Kind {
    Deliver { to_addr: u8, from: usize, data: Vec<u8>, mid: u64 },
    Timer { node: usize, timer: Timer<Id> },
}

struct Ev {
    due: u64,
    seq: u64,
    kind: Kind,
}

impl PartialEq for Ev {
    fn eq(&self, o: &Self) -> bool {
        self.cmp(o) == Ordering::Equal
    }
}
impl Eq for Ev {}
impl PartialOrd for Ev {
    fn partial_cmp(&self, o: &Self) -> Option<Ordering> {
        Some(self.cmp(o))
    }
}
impl Ord for Ev {
    // BinaryHeap is a max-heap: reverse so that the earliest event pops first
    fn cmp(&self, o: &Self) -> Ordering {
        let a = self;
        let b = o;
        let ord = a.due.cmp(&b.due).then_with(|| match (&a.kind, &b.kind) {
            (Kind::Timer { timer: x, .. }, Kind::Timer { timer: y, .. }) => x.cmp(y),
            (Kind::Deliver { .. }, Kind::Timer { .. }) => Ordering::Less,
            (Kind::Timer { .. }, Kind::Deliver { .. }) => Ordering::Greater,
            _ => Ordering::Equal,
        });
        ord.then_with(|| a.seq.cmp(&b.seq)).reverse()
    }
}

#[derive(Clone, Copy, Debug, PartialEq, Eq)]
pub enum Status {
    Absent,
    Up,
    Crashed,
    Left,
}

pub struct Sim<'a> {
    pub scfg: SimCfg,
    pub nodes: Vec<Option<Node>>,
    pub status: Vec<Status>,
    queue: BinaryHeap<Ev>,
    pub now: u64,
    pub rng: SmallRng,
    pub tw: &'a mut TraceWriter,
    seq: u64,
    pub mid: u64,
    /// datagram indexes (in send order) to lose
    pub drop_mids: HashSet<u64>,
    /// kinds of the datagrams dropped so far
    pub dropped_kinds: Vec<&'static str>,
    /// partition group per node; messages between different groups are lost
    pub group: Vec<u8>,
    /// number of events processed
    pub steps: u64,
    /// datagrams delivered, by kind
    pub sent_kinds: std::collections::HashMap<&'static str, u64>,
    pub errors: u64,
    pub hold_timers: bool,
    pub delivered: u64,
}

pub fn kind_name(m: &Message<Id>) -> &'static str {
    match m {
        Message::Ping(_) => "Ping",
        Message::Ack(_) => "Ack",
        Message::PingReq { .. } => "PingReq",
        Message::IndirectPing { .. } => "IndirectPing",
        Message::IndirectAck { .. } => "IndirectAck",
        Message::ForwardedAck { .. } => "ForwardedAck",
        Message::Announce => "Announce",
        Message::Feed => "Feed",
        Message::Gossip => "Gossip",
        Message::Broadcast => "Broadcast",
        Message::TurnUndead => "TurnUndead",
    }
}

impl<'a> Sim<'a> {
    pub fn new(scfg: SimCfg, run: u64, driver: &str, extra: Value, tw: &'a mut TraceWriter) -> Sim<'a> {
        let n = scfg.n;
        let mut hdr = json!({"run": run, "driver": driver, "n": n,
            "period": scfg.cfg.period, "rtt": scfg.cfg.rtt, "s2d": scfg.cfg.s2d, "rda": scfg.cfg.rda,
            "fanout": scfg.cfg.fanout, "maxtx": scfg.cfg.maxtx, "maxpkt": scfg.cfg.maxpkt,
            "notifydown": scfg.cfg.notifydown,
            "pa": scfg.cfg.pa.map_or(0, |p| p.0), "pad": scfg.cfg.pad.map_or(0, |p| p.0), "pg": scfg.cfg.pg.map_or(0, |p| p.0),
            "pol": scfg.pol.name(), "lat": [scfg.lat.0, scfg.lat.1], "ordered": true, "cluster": true});
        if let Value::Object(m) = extra {
            for (k, v) in m {
                hdr[k] = v;
            }
        }
        tw.env("reset", 0, hdr);
        let rng = SmallRng::seed_from_u64(scfg.seed);
        Sim {
            nodes: (0..n).map(|_| None).collect(),
            status: vec![Status::Absent; n],
            queue: BinaryHeap::new(),
            now: 0,
            rng,
            tw,
            seq: 0,
            mid: 0,
            drop_mids: HashSet::new(),
            dropped_kinds: vec![],
            group: vec![0; n],
            steps: 0,
            sent_kinds: Default::default(),
            errors: 0,
            hold_timers: false,
            delivered: 0,
            scfg,
        }
    }

    pub fn id_of(&self, i: usize) -> Id {
        self.nodes[i].as_ref().map(|n| n.id()).unwrap_or(Id::new(i as u8 + 1, 0))
    }

    pub fn spawn(&mut self, i: usize, gen: u16) {
        let id = Id::with(i as u8 + 1, gen, self.scfg.pol);
        let ncfg = NodeCfg {
            id,
            cfg: self.scfg.cfg.clone(),
            codec: self.scfg.codec,
            handler: self.scfg.handler,
            seed: self.rng.random(),
            twin: false,
        };
        let mut node = Node::new(i, ncfg, self.tw, self.now);
        node.peer_check = false;
        self.nodes[i] = Some(node);
        self.status[i] = Status::Up;
    }

    fn absorb(&mut self, i: usize, effects: Vec<Effect>) {
        for e in effects {
            match e {
                Effect::Send { dst, data } => {
                    self.mid += 1;
                    let mid = self.mid;
                    let kind = codec::parse(self.scfg.codec, &data).header.map(|h| kind_name(&h.message)).unwrap_or("?");
                    if self.drop_mids.contains(&mid) {
                        self.dropped_kinds.push(kind);
                        self.tw.env("drop", self.now, json!({"mid": mid, "kind": kind, "from": i, "to": id_json(&dst)}));
                        continue;
                    }
                    *self.sent_kinds.entry(kind).or_insert(0) += 1;
                    let lat = if self.scfg.lat.1 > self.scfg.lat.0 {
                        self.rng.random_range(self.scfg.lat.0..=self.scfg.lat.1)
                    } else {
                        self.scfg.lat.0
                    };
                    self.seq += 1;
                    self.queue.push(Ev { due: self.now + lat, seq: self.seq, kind: Kind::Deliver { to_addr: dst.addr, from: i, data, mid } });
                }
                Effect::Timer { timer, after } => {
                    let late = if self.scfg.late > 0 { self.rng.random_range(0..=self.scfg.late) } else { 0 };
                    self.seq += 1;
                    self.queue.push(Ev { due: self.now + after.as_millis() as u64 + late, seq: self.seq, kind: Kind::Timer { node: i, timer } });
                }
                Effect::Notify(_) => {}
            }
        }
    }

    /// a user call on node i
    pub fn call(&mut self, i: usize, c: Call) -> Res {
        if self.status[i] == Status::Absent || self.status[i] == Status::Crashed {
            return Res::Err("NoNode");
        }
        let now = self.now;
        let out = self.nodes[i].as_mut().unwrap().call(&c, self.tw, now);
        if out.res != Res::Ok {
            self.errors += 1;
        }
        let res = out.res.clone();
        self.absorb(i, out.effects);
        res
    }

    pub fn join(&mut self, i: usize, via: usize) {
        let dst = self.id_of(via);
        self.tw.env("join", self.now, json!({"node": i, "via": via}));
        self.call(i, Call::Announce(dst));
    }

    pub fn crash(&mut self, i: usize) {
        self.status[i] = Status::Crashed;
        let id = self.id_of(i);
        self.tw.env("crash", self.now, json!({"node": i, "id": id_json(&id)}));
    }

    pub fn leave(&mut self, i: usize) {
        let id = self.id_of(i);
        self.tw.env("leave", self.now, json!({"node": i, "id": id_json(&id)}));
        self.call(i, Call::Leave);
        self.status[i] = Status::Left;
    }

    pub fn partition(&mut self, groups: Vec<u8>) {
        self.tw.env("partition", self.now, json!({"groups": groups}));
        self.group = groups;
    }

    pub fn heal(&mut self) {
        self.tw.env("heal", self.now, json!({}));
        self.group = vec![0; self.scfg.n];
    }

    pub fn next_due(&self) -> Option<u64> {
        self.queue.peek().map(|e| e.due)
    }

    /// processes one event; false when the queue is empty
    pub fn step(&mut self) -> bool {
        let Some(ev) = self.queue.pop() else { return false };
        self.now = self.now.max(ev.due);
        self.steps += 1;
        match ev.kind {
            Kind::Deliver { to_addr, from, data, mid } => {
                let to = to_addr as usize - 1;
                if to >= self.scfg.n || self.status[to] == Status::Absent || self.status[to] == Status::Crashed {
                    return true;
                }
                if self.group[from] != self.group[to] {
                    self.tw.env("cut", self.now, json!({"mid": mid}));
                    return true;
                }
                self.delivered += 1;
                let now = self.now;
                let out = self.nodes[to].as_mut().unwrap().call_tagged(&Call::Data(data), self.tw, now, json!({"mid": mid, "from": from}));
                if out.res != Res::Ok {
                    self.errors += 1;
                }
                self.absorb(to, out.effects);
            }
            Kind::Timer { node, timer } => {
                if self.status[node] == Status::Crashed || self.hold_timers {
                    return true;
                }
                let now = self.now;
                let out = self.nodes[node].as_mut().unwrap().call(&Call::Timer(timer), self.tw, now);
                if out.res != Res::Ok {
                    self.errors += 1;
                }
                self.absorb(node, out.effects);
            }
        }
        true
    }

    pub fn run_until(&mut self, t: u64) {
        while let Some(d) = self.next_due() {
            if d > t {
                break;
            }
            self.step();
        }
        self.now = self.now.max(t);
    }

    /// discards every datagram in flight (used to start an exchange from a single datagram)
    pub fn drop_all_in_flight(&mut self) {
        let evs: Vec<Ev> = std::mem::take(&mut self.queue).into_vec();
        for e in evs {
            if !matches!(e.kind, Kind::Deliver { .. }) {
                self.queue.push(e);
            }
        }
    }

    /// puts a crafted datagram on the wire
    pub fn inject(&mut self, from: usize, to: usize, data: Vec<u8>) {
        self.mid += 1;
        self.seq += 1;
        let mid = self.mid;
        self.queue.push(Ev { due: self.now, seq: self.seq, kind: Kind::Deliver { to_addr: to as u8 + 1, from, data, mid } });
    }

    /// delivers one datagram chosen at random among those in flight (any delivery order)
    pub fn step_random(&mut self, r: &mut SmallRng) {
        let mut evs: Vec<Ev> = std::mem::take(&mut self.queue).into_vec();
        let idxs: Vec<usize> = evs.iter().enumerate().filter(|(_, e)| matches!(e.kind, Kind::Deliver { .. })).map(|(i, _)| i).collect();
        if idxs.is_empty() {
            self.queue = evs.into();
            return;
        }
        let pick = idxs[r.random_range(0..idxs.len())];
        let mut chosen = evs.swap_remove(pick);
        chosen.due = self.now;
        // everything else keeps waiting; the chosen one is processed now
        let min_seq = evs.iter().map(|e| e.seq).min().unwrap_or(0);
        let _ = min_seq;
        self.queue = evs.into();
        let held = std::mem::take(&mut self.queue);
        self.queue.push(chosen);
        self.step();
        for e in held.into_vec() {
            self.queue.push(e);
        }
    }

    /// number of datagrams still in flight
    pub fn in_flight(&self) -> usize {
        self.queue.iter().filter(|e| matches!(e.kind, Kind::Deliver { .. })).count()
    }

    /// final views of every node (public API only) for the monitors' end-of-run clauses
    pub fn end(&mut self, extra: Value) {
        let mut views = vec![];
        for i in 0..self.scfg.n {
            let st = match self.status[i] {
                Status::Absent => "absent",
                Status::Up => "up",
                Status::Crashed => "crashed",
                Status::Left => "left",
            };
            match &self.nodes[i] {
                Some(n) if !n.poisoned => {
                    let snap = n.foca.verif_snapshot();
                    let mut codec = crate::codec::AnyCodec::new(self.scfg.codec);
                    let pending: Vec<Value> = snap
                        .updates
                        .iter()
                        .filter_map(|(d, tx)| {
                            let mut cur: &[u8] = d;
                            foca::Codec::decode_member(&mut codec, &mut cur).ok().map(|m| json!({"id": id_json(m.id()), "tx": tx}))
                        })
                        .collect();
                    views.push(json!({"node": i, "status": st, "id": id_json(&n.id()),
                        "state": n.foca.iter_membership_state().map(crate::node::member_json).collect::<Vec<_>>(),
                        "members": n.foca.iter_members().map(|m| id_json(m.id())).collect::<Vec<_>>(),
                        "pending": pending}));
                }
                _ => views.push(json!({"node": i, "status": st, "id": [i + 1, 0], "state": [], "members": [], "pending": []})),
            }
        }
        let mut v = json!({"views": views, "steps": self.steps.min(2_000_000_000), "inflight": self.in_flight()});
        if let Value::Object(m) = extra {
            for (k, x) in m {
                v[k] = x;
            }
        }
        let now = self.now;
        self.tw.env("end", now, v);
    }
}
