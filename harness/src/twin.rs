//! C17 driver: twin lanes.  Lane A runs a base history; lane B runs the same history with rejected
//! inputs of every class inserted before each base step.  Both lanes have identical configuration
//! and RNG seed, so (by determinism) every aligned step must coincide in result, effects, public
//! view, hook view and RNG draw count, and every inserted input must leave no trace.
use std::time::Duration;

use foca::{Header, Member, Message, State, Timer};
use rand::{rngs::SmallRng, Rng, SeedableRng};
use serde_json::json;

use crate::codec::{self, CodecKind, Mode};
use crate::handler::{Accept, HandlerCfg, InvRel, Pred};
use crate::id::{Id, Policy};
use crate::node::{Call, Cfg, Effect, Node, NodeCfg, TraceWriter};

fn pick<T: Copy>(r: &mut SmallRng, xs: &[T]) -> T {
    xs[r.random_range(0..xs.len())]
}

struct Pend {
    t: Timer<Id>,
    due: u64,
    seq: u64,
}

/// a rejected input for the instance in its current state; returns (class, call)
fn rejected(r: &mut SmallRng, node: &Node, codec: CodecKind, valid: &[u8]) -> (&'static str, Call) {
    let own = node.id();
    let snap = node.foca.verif_snapshot();
    let maxpkt = snap.config.max_packet_size.get();
    let peer = Id::new(r.random_range(2..5), r.random_range(0..2));
    let gossip = |src: Id, dst: Id, members: &[Member<Id>]| {
        let h = Header { src, src_incarnation: 0, dst, message: Message::Gossip };
        codec::build(codec, &h, Some(members.len() as u16), members, &[]).unwrap_or_default()
    };
    let some = [Member::new(Id::new(3, 0), 1, State::Suspect), Member::new(Id::new(4, 1), 0, State::Alive)];
    loop {
        match r.random_range(0..13) {
            0 => return ("too-big", Call::Data(vec![0x11; maxpkt + 1 + r.random_range(0..50)])),
            1 => {
                // undecodable header: truncated inside the header
                let k = r.random_range(0..6usize.min(valid.len()));
                return ("bad-header", Call::Data(valid[..k].to_vec()));
            }
            2 => return ("own-identity", Call::Data(gossip(own, own, &some))),
            3 => return ("own-address", Call::Data(gossip(Id::new(own.addr, own.gen.wrapping_add(1)), own, &some))),
            4 => {
                // one stray byte right after the header
                let h = Header { src: peer, src_incarnation: 0, dst: own, message: Message::Gossip };
                let mut b = codec::build(codec, &h, None, &[], &[]).unwrap_or_default();
                b.push(7);
                if b.len() <= maxpkt {
                    return ("one-byte-after-header", Call::Data(b));
                }
            }
            5 => {
                // Announce carrying data
                let h = Header { src: peer, src_incarnation: 0, dst: own, message: Message::Announce };
                let b = codec::build(codec, &h, Some(0), &[], &[]).unwrap_or_default();
                if b.len() <= maxpkt {
                    return ("announce-with-data", Call::Data(b));
                }
            }
            6 => {
                // not addressed to the instance
                let other = Id::new(own.addr, own.gen.wrapping_add(2));
                let b = gossip(peer, if r.random_range(0..2) == 0 { other } else { Id::new(9, 0) }, &some);
                if b.len() <= maxpkt {
                    return ("wrong-destination", Call::Data(b));
                }
            }
            7 => {
                // member list that cannot be decoded: tally promises more than there is / bad state byte
                let h = Header { src: peer, src_incarnation: 0, dst: own, message: Message::Gossip };
                let mut b = codec::build(codec, &h, Some(3), &some[..1], &[]).unwrap_or_default();
                if r.random_range(0..2) == 0 {
                    b.extend_from_slice(&[3, 0, 0, 0, 0, 9]); // state byte 9
                }
                if b.len() <= maxpkt {
                    return ("bad-member-list", Call::Data(b));
                }
            }
            8 => {
                // stale-epoch timers
                let tok = snap.timer_token.wrapping_sub(r.random_range(1..4));
                let t = match r.random_range(0..6) {
                    0 => Timer::ProbeRandomMember(tok),
                    1 => Timer::SendIndirectProbe { probed_id: peer, token: tok },
                    2 => Timer::ChangeSuspectToDown { member_id: peer, incarnation: 0, token: tok },
                    3 => Timer::PeriodicAnnounce(tok),
                    4 => Timer::PeriodicGossip(tok),
                    _ => Timer::PeriodicAnnounceDown(tok),
                };
                return ("stale-timer", Call::Timer(t));
            }
            9 => {
                if snap.connection_state != 2 {
                    return ("not-undead", Call::Reuse);
                }
            }
            10 => return ("same-identity", Call::ChangeId(own)),
            11 => {
                let mut c = snap.config.clone();
                match r.random_range(0..3) {
                    0 => c.probe_period += Duration::from_millis(1),
                    1 => c.probe_rtt += Duration::from_millis(1),
                    _ => {
                        let pp = Some(foca::PeriodicParams { frequency: Duration::from_millis(700), num_members: std::num::NonZeroUsize::new(1).unwrap() });
                        if c.periodic_announce.is_none() {
                            c.periodic_announce = pp;
                        } else if c.periodic_gossip.is_none() {
                            c.periodic_gossip = pp;
                        } else if c.periodic_announce_to_down_members.is_none() {
                            c.periodic_announce_to_down_members = pp;
                        } else {
                            c.probe_period += Duration::from_millis(1);
                        }
                    }
                }
                // also change everything else, to see that nothing is partially assigned
                c.max_transmissions = std::num::NonZeroU8::new(77).unwrap();
                c.notify_down_members = !c.notify_down_members;
                return ("invalid-config", Call::SetConfig(c));
            }
            _ => {
                return if r.random_range(0..2) == 0 {
                    ("empty-broadcast", Call::AddBcast(vec![]))
                } else {
                    ("too-big-broadcast", Call::AddBcast(vec![1; maxpkt + 1]))
                };
            }
        }
    }
}

pub fn run(seed: u64, runs: usize, steps: usize, tw: &mut TraceWriter) -> (u64, u64) {
    let mut master = SmallRng::seed_from_u64(seed);
    let mut inserted = 0u64;
    let mut base = 0u64;
    // Timer's own order (used by runtimes to break ties among due timers): the kinds sorted by `Ord`
    {
        let x = Id::new(2, 0);
        let mut ts = vec![
            Timer::RemoveDown(x), Timer::PeriodicAnnounceDown(0), Timer::PeriodicGossip(0), Timer::PeriodicAnnounce(0),
            Timer::ChangeSuspectToDown { member_id: x, incarnation: 0, token: 0 }, Timer::ProbeRandomMember(0),
            Timer::SendIndirectProbe { probed_id: x, token: 0 },
        ];
        ts.sort();
        let kinds: Vec<String> = ts.iter().map(|t| crate::node::timer_json(t)["k"].as_str().unwrap().to_string()).collect();
        tw.env("reset", 0, json!({"run": 0, "driver": "twin"}));
        tw.env("group", 0, json!({"prop": "C13", "kind": "timer-order", "order": kinds}));
    }
    for run in 0..runs {
        let mut r = SmallRng::seed_from_u64(master.random());
        let codec = pick(&mut r, &[CodecKind::Hand(Mode::Fixed), CodecKind::Hand(Mode::Var)]);
        let mut cfg = Cfg::default();
        cfg.maxpkt = pick(&mut r, &[1400usize, 64, 40]);
        cfg.maxtx = pick(&mut r, &[1u8, 3, 10]);
        cfg.notifydown = r.random_range(0..2) == 0;
        if r.random_range(0..2) == 0 {
            cfg.pg = Some((800, 2));
        }
        if r.random_range(0..2) == 0 {
            cfg.pad = Some((2000, 1));
        }
        let pol = pick(&mut r, &[Policy::None, Policy::Next]);
        let handler = HandlerCfg { rel: InvRel::SameKey, pred: Pred::All, accept: Accept::Newer };
        let nseed: u64 = r.random();
        tw.env("reset", 0, json!({"run": run, "driver": "twin"}));
        let mk = |idx: usize, tw: &mut TraceWriter| {
            let ncfg = NodeCfg { id: Id::with(1, 0, pol), cfg: cfg.clone(), codec, handler, seed: nseed, twin: false };
            let mut n = Node::new(idx, ncfg, tw, 0);
            n.peer_check = false;
            n
        };
        let mut a = mk(0, tw);
        let mut b = mk(1, tw);
        let mut pend: Vec<Pend> = vec![];
        let mut now = 0u64;
        let mut seq = 0u64;
        let valid_sample = {
            let h = Header { src: Id::new(2, 0), src_incarnation: 0, dst: a.id(), message: Message::Ping(1) };
            codec::build(codec, &h, None, &[], &[]).unwrap_or_default()
        };
        for k in 0..steps {
            if a.poisoned || b.poisoned {
                break;
            }
            now += r.random_range(0..300);
            // ---- the base step, generated from lane A's state
            let own = a.id();
            let snap = a.foca.verif_snapshot();
            let choice = r.random_range(0..100);
            let call = if choice < 30 && !pend.is_empty() {
                let mut best = 0;
                for (j, p) in pend.iter().enumerate() {
                    if (p.due, &p.t, p.seq) < (pend[best].due, &pend[best].t, pend[best].seq) {
                        best = j;
                    }
                }
                let p = pend.swap_remove(best);
                now = now.max(p.due);
                Call::Timer(p.t)
            } else if choice < 80 {
                let src = Id::new(r.random_range(2..5), r.random_range(0..2));
                let n = match r.random_range(0..4) {
                    0 => snap.probe_number.wrapping_add(1),
                    _ => snap.probe_number,
                };
                let other = Id::new(r.random_range(2..5), 0);
                let msg = match r.random_range(0..10) {
                    0 | 1 => Message::Ping(n),
                    2 | 3 => Message::Ack(n),
                    4 => Message::PingReq { target: other, probe_number: n },
                    5 => Message::ForwardedAck { origin: other, probe_number: n },
                    6 => Message::Announce,
                    7 => Message::Feed,
                    8 => Message::TurnUndead,
                    _ => Message::Gossip,
                };
                let mut members = vec![];
                if !matches!(msg, Message::Announce | Message::TurnUndead) {
                    for _ in 0..r.random_range(0..3) {
                        let id = if r.random_range(0..6) == 0 { own } else { Id::new(r.random_range(2..5), r.random_range(0..2)) };
                        members.push(Member::new(id, pick(&mut r, &[0u16, 1, 2]), pick(&mut r, &[State::Alive, State::Suspect, State::Down])));
                    }
                }
                let items: Vec<Vec<u8>> = if matches!(msg, Message::Gossip | Message::Ping(_)) && r.random_range(0..3) == 0 {
                    vec![codec::make_item(r.random_range(1..3), r.random_range(0..3), 3)]
                } else {
                    vec![]
                };
                let h = Header { src, src_incarnation: pick(&mut r, &[0u16, 0, 1]), dst: own, message: msg.clone() };
                let tally = if matches!(msg, Message::Announce | Message::TurnUndead) { None } else { Some(members.len() as u16) };
                Call::Data(codec::build(codec, &h, tally, &members, &items).unwrap_or_default())
            } else if choice < 86 {
                let m = Member::new(Id::new(r.random_range(2..5), r.random_range(0..2)), pick(&mut r, &[0u16, 1]), pick(&mut r, &[State::Alive, State::Suspect, State::Down]));
                Call::ApplyMany(vec![m], r.random_range(0..2) == 0)
            } else if choice < 90 {
                Call::Gossip
            } else if choice < 93 {
                Call::AddBcast(codec::make_item(r.random_range(1..3), r.random_range(0..4), pick(&mut r, &[2usize, 5])))
            } else if choice < 95 {
                Call::Announce(Id::new(r.random_range(2..5), 0))
            } else if choice < 97 {
                Call::Broadcast
            } else if choice < 98 {
                Call::ChangeId(Id::with(own.addr, own.gen + 1, own.pol))
            } else if choice < 99 {
                Call::Leave
            } else {
                Call::Reuse
            };
            let out_a = a.call_tagged(&call, tw, now, json!({"lane": "A", "k": k}));
            base += 1;
            for e in &out_a.effects {
                if let Effect::Timer { timer, after } = e {
                    seq += 1;
                    pend.push(Pend { t: timer.clone(), due: now + after.as_millis() as u64, seq });
                }
            }
            // ---- lane B: rejected inputs first, then the same base step
            let m = pick(&mut r, &[0usize, 0, 1, 1, 2, 3]);
            for _ in 0..m {
                let (class, rc) = rejected(&mut r, &b, codec, &valid_sample);
                b.call_tagged(&rc, tw, now, json!({"lane": "B", "ins": class}));
                inserted += 1;
            }
            b.call_tagged(&call, tw, now, json!({"lane": "B", "k": k}));
        }
        tw.env("end", now, json!({"run": run}));
    }
    (base, inserted)
}
