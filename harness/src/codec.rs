//! Codecs used by the harness and an independent datagram parser.
//!
//! `Hand(mode)` is a hand-written, non-panicking codec with three identity
//! encodings (fixed 3 bytes, variable 4..=6 bytes, tiny 1 byte). The bundled
//! bincode / postcard codecs are available through `AnyCodec` too.
//!
//! `parse` re-implements the *documented* datagram grammar (header, optional
//! u16 tally + members, length-prefixed items) without using any of foca's
//! framing code; it is used both to describe received bytes to the
//! specification and to check every emitted datagram.
use bytes::{Buf, BufMut};
use foca::{BincodeCodec, Codec, Header, Member, Message, PostcardCodec, State};

use crate::id::Id;

#[derive(Clone, Copy, Debug, PartialEq, Eq)]
pub enum Mode {
    Fixed,
    Var,
    Tiny,
    /// like Fixed, but a header that does not fit is written as far as it fits before failing
    /// (the Codec contract only forbids a dirty buffer for encode_member)
    Dirty,
}

#[derive(Clone, Copy, Debug, PartialEq, Eq)]
pub enum CodecKind {
    Hand(Mode),
    Bincode,
    Postcard,
}

impl CodecKind {
    pub fn name(self) -> &'static str {
        match self {
            CodecKind::Hand(Mode::Fixed) => "fixed",
            CodecKind::Hand(Mode::Var) => "var",
            CodecKind::Hand(Mode::Tiny) => "tiny",
            CodecKind::Hand(Mode::Dirty) => "dirty",
            CodecKind::Bincode => "bincode",
            CodecKind::Postcard => "postcard",
        }
    }
    pub fn parse_name(s: &str) -> CodecKind {
        match s {
            "var" => CodecKind::Hand(Mode::Var),
            "tiny" => CodecKind::Hand(Mode::Tiny),
            "dirty" => CodecKind::Hand(Mode::Dirty),
            "bincode" => CodecKind::Bincode,
            "postcard" => CodecKind::Postcard,
            _ => CodecKind::Hand(Mode::Fixed),
        }
    }
    pub fn all() -> [CodecKind; 5] {
        [
            CodecKind::Hand(Mode::Fixed),
            CodecKind::Hand(Mode::Var),
            CodecKind::Hand(Mode::Tiny),
            CodecKind::Bincode,
            CodecKind::Postcard,
        ]
    }
}

#[derive(Debug, Clone, PartialEq, Eq)]
pub enum CErr {
    BufTooSmall,
    Short,
    BadTag(u8),
    BadState(u8),
    BadId,
    Unrepresentable,
    Serde(String),
}
impl std::fmt::Display for CErr {
    fn fmt(&self, f: &mut std::fmt::Formatter<'_>) -> std::fmt::Result {
        write!(f, "{self:?}")
    }
}
impl std::error::Error for CErr {}

// ---------------------------------------------------------------- sizes

pub fn id_size(mode: Mode, id: &Id) -> usize {
    match mode {
        Mode::Fixed | Mode::Dirty => 3,
        Mode::Var => 4 + (id.addr % 3) as usize,
        Mode::Tiny => 1,
    }
}

fn msg_parts(m: &Message<Id>) -> (u8, Option<u8>, Option<Id>) {
    match m {
        Message::Ping(n) => (0, Some(*n), None),
        Message::Ack(n) => (1, Some(*n), None),
        Message::PingReq { target, probe_number } => (2, Some(*probe_number), Some(*target)),
        Message::IndirectPing { origin, probe_number } => (3, Some(*probe_number), Some(*origin)),
        Message::IndirectAck { target, probe_number } => (4, Some(*probe_number), Some(*target)),
        Message::ForwardedAck { origin, probe_number } => (5, Some(*probe_number), Some(*origin)),
        Message::Announce => (6, None, None),
        Message::Feed => (7, None, None),
        Message::Gossip => (8, None, None),
        Message::Broadcast => (9, None, None),
        Message::TurnUndead => (10, None, None),
    }
}

pub fn header_size(mode: Mode, h: &Header<Id>) -> usize {
    let (_, n, id) = msg_parts(&h.message);
    id_size(mode, &h.src)
        + 2
        + id_size(mode, &h.dst)
        + 1
        + n.map_or(0, |_| 1)
        + id.map_or(0, |i| id_size(mode, &i))
}

pub fn member_size(mode: Mode, m: &Member<Id>) -> usize {
    id_size(mode, m.id()) + 3
}

// ---------------------------------------------------------------- hand codec

fn put_id(mode: Mode, id: &Id, buf: &mut impl BufMut) -> Result<(), CErr> {
    match mode {
        Mode::Fixed | Mode::Dirty => {
            buf.put_u8(id.addr);
            buf.put_u16(id.gen);
        }
        Mode::Var => {
            let pad = id.addr % 3;
            buf.put_u8(pad);
            buf.put_u8(id.addr);
            buf.put_u16(id.gen);
            for i in 0..pad {
                buf.put_u8(0xA0 + i);
            }
        }
        Mode::Tiny => {
            if id.addr > 15 || id.gen > 15 {
                return Err(CErr::Unrepresentable);
            }
            buf.put_u8((id.addr << 4) | (id.gen as u8));
        }
    }
    Ok(())
}

fn representable(mode: Mode, id: &Id) -> bool {
    mode != Mode::Tiny || (id.addr <= 15 && id.gen <= 15)
}

fn get_id(mode: Mode, buf: &mut impl Buf) -> Result<Id, CErr> {
    match mode {
        Mode::Fixed | Mode::Dirty => {
            if buf.remaining() < 3 {
                return Err(CErr::Short);
            }
            let addr = buf.get_u8();
            let gen = buf.get_u16();
            Ok(Id::new(addr, gen))
        }
        Mode::Var => {
            if buf.remaining() < 4 {
                return Err(CErr::Short);
            }
            let pad = buf.get_u8();
            let addr = buf.get_u8();
            let gen = buf.get_u16();
            if pad != addr % 3 {
                return Err(CErr::BadId);
            }
            if buf.remaining() < pad as usize {
                return Err(CErr::Short);
            }
            for i in 0..pad {
                if buf.get_u8() != 0xA0 + i {
                    return Err(CErr::BadId);
                }
            }
            Ok(Id::new(addr, gen))
        }
        Mode::Tiny => {
            if buf.remaining() < 1 {
                return Err(CErr::Short);
            }
            let b = buf.get_u8();
            Ok(Id::new(b >> 4, (b & 15) as u16))
        }
    }
}

#[derive(Clone, Copy, Debug)]
pub struct HandCodec(pub Mode);

impl Codec<Id> for HandCodec {
    type Error = CErr;

    fn encode_header(&mut self, h: &Header<Id>, mut buf: impl BufMut) -> Result<(), CErr> {
        let mode = self.0;
        let (tag, n, id) = msg_parts(&h.message);
        if !representable(mode, &h.src)
            || !representable(mode, &h.dst)
            || id.is_some_and(|i| !representable(mode, &i))
        {
            return Err(CErr::Unrepresentable);
        }
        if buf.remaining_mut() < header_size(mode, h) {
            if mode == Mode::Dirty {
                // partial write: as many bytes of the header as fit
                let mut tmp: Vec<u8> = Vec::new();
                let _ = HandCodec(Mode::Fixed).encode_header(h, &mut tmp);
                let k = buf.remaining_mut().min(tmp.len());
                buf.put_slice(&tmp[..k]);
            }
            return Err(CErr::BufTooSmall);
        }
        put_id(mode, &h.src, &mut buf)?;
        buf.put_u16(h.src_incarnation);
        put_id(mode, &h.dst, &mut buf)?;
        buf.put_u8(tag);
        if let Some(n) = n {
            buf.put_u8(n);
        }
        if let Some(i) = id {
            put_id(mode, &i, &mut buf)?;
        }
        Ok(())
    }

    fn decode_header(&mut self, mut buf: impl Buf) -> Result<Header<Id>, CErr> {
        let mode = self.0;
        let src = get_id(mode, &mut buf)?;
        if buf.remaining() < 2 {
            return Err(CErr::Short);
        }
        let src_incarnation = buf.get_u16();
        let dst = get_id(mode, &mut buf)?;
        if buf.remaining() < 1 {
            return Err(CErr::Short);
        }
        let tag = buf.get_u8();
        let mut num = || -> Result<u8, CErr> {
            if buf.remaining() < 1 {
                Err(CErr::Short)
            } else {
                Ok(buf.get_u8())
            }
        };
        let message = match tag {
            0 => Message::Ping(num()?),
            1 => Message::Ack(num()?),
            2..=5 => {
                let probe_number = num()?;
                let id = get_id(mode, &mut buf)?;
                match tag {
                    2 => Message::PingReq { target: id, probe_number },
                    3 => Message::IndirectPing { origin: id, probe_number },
                    4 => Message::IndirectAck { target: id, probe_number },
                    _ => Message::ForwardedAck { origin: id, probe_number },
                }
            }
            6 => Message::Announce,
            7 => Message::Feed,
            8 => Message::Gossip,
            9 => Message::Broadcast,
            10 => Message::TurnUndead,
            other => return Err(CErr::BadTag(other)),
        };
        Ok(Header { src, src_incarnation, dst, message })
    }

    fn encode_member(&mut self, m: &Member<Id>, mut buf: impl BufMut) -> Result<(), CErr> {
        let mode = self.0;
        if !representable(mode, m.id()) {
            return Err(CErr::Unrepresentable);
        }
        if buf.remaining_mut() < member_size(mode, m) {
            return Err(CErr::BufTooSmall);
        }
        put_id(mode, m.id(), &mut buf)?;
        buf.put_u16(m.incarnation());
        buf.put_u8(match m.state() {
            State::Alive => 0,
            State::Suspect => 1,
            State::Down => 2,
        });
        Ok(())
    }

    fn decode_member(&mut self, mut buf: impl Buf) -> Result<Member<Id>, CErr> {
        let mode = self.0;
        let id = get_id(mode, &mut buf)?;
        if buf.remaining() < 3 {
            return Err(CErr::Short);
        }
        let inc = buf.get_u16();
        let st = match buf.get_u8() {
            0 => State::Alive,
            1 => State::Suspect,
            2 => State::Down,
            o => return Err(CErr::BadState(o)),
        };
        Ok(Member::new(id, inc, st))
    }
}

// ---------------------------------------------------------------- any codec

#[derive(Clone, Copy)]
pub enum AnyCodec {
    Hand(HandCodec),
    Bincode(BincodeCodec<bincode::config::Configuration>),
    Postcard(PostcardCodec),
}

impl AnyCodec {
    pub fn new(kind: CodecKind) -> Self {
        match kind {
            CodecKind::Hand(m) => AnyCodec::Hand(HandCodec(m)),
            CodecKind::Bincode => AnyCodec::Bincode(BincodeCodec(bincode::config::standard())),
            CodecKind::Postcard => AnyCodec::Postcard(PostcardCodec),
        }
    }
}

fn se<E: std::fmt::Debug>(e: E) -> CErr {
    CErr::Serde(format!("{e:?}"))
}

impl Codec<Id> for AnyCodec {
    type Error = CErr;
    fn encode_header(&mut self, h: &Header<Id>, buf: impl BufMut) -> Result<(), CErr> {
        match self {
            AnyCodec::Hand(c) => c.encode_header(h, buf),
            AnyCodec::Bincode(c) => c.encode_header(h, buf).map_err(se),
            AnyCodec::Postcard(c) => c.encode_header(h, buf).map_err(se),
        }
    }
    fn decode_header(&mut self, buf: impl Buf) -> Result<Header<Id>, CErr> {
        match self {
            AnyCodec::Hand(c) => c.decode_header(buf),
            AnyCodec::Bincode(c) => c.decode_header(buf).map_err(se),
            AnyCodec::Postcard(c) => c.decode_header(buf).map_err(se),
        }
    }
    fn encode_member(&mut self, m: &Member<Id>, buf: impl BufMut) -> Result<(), CErr> {
        match self {
            AnyCodec::Hand(c) => c.encode_member(m, buf),
            AnyCodec::Bincode(c) => c.encode_member(m, buf).map_err(se),
            AnyCodec::Postcard(c) => c.encode_member(m, buf).map_err(se),
        }
    }
    fn decode_member(&mut self, buf: impl Buf) -> Result<Member<Id>, CErr> {
        match self {
            AnyCodec::Hand(c) => c.decode_member(buf),
            AnyCodec::Bincode(c) => c.decode_member(buf).map_err(se),
            AnyCodec::Postcard(c) => c.decode_member(buf).map_err(se),
        }
    }
}

// ---------------------------------------------------------------- items

/// A custom broadcast item as the harness defines it: `[key]` or
/// `[key, version, filler...]` where filler byte `i` is a function of
/// `(key, version, i)`, so that "intact" is decidable from the bytes alone.
#[derive(Clone, Debug, PartialEq, Eq)]
pub struct Item {
    pub key: u8,
    pub ver: u8,
    pub size: usize,
    pub intact: bool,
}

pub fn filler(key: u8, ver: u8, i: usize) -> u8 {
    (key as usize * 31 + ver as usize * 17 + i * 7 + 3) as u8
}

pub fn make_item(key: u8, ver: u8, size: usize) -> Vec<u8> {
    assert!(size >= 1);
    let mut v = Vec::with_capacity(size);
    v.push(key);
    if size >= 2 {
        v.push(ver);
    }
    for i in 2..size {
        v.push(filler(key, ver, i));
    }
    v
}

pub fn parse_item(data: &[u8]) -> Item {
    let key = data.first().copied().unwrap_or(0);
    let ver = data.get(1).copied().unwrap_or(0);
    let intact = !data.is_empty()
        && data
            .iter()
            .enumerate()
            .skip(2)
            .all(|(i, b)| *b == filler(key, ver, i));
    Item { key, ver, size: data.len(), intact }
}

// ---------------------------------------------------------------- parser

#[derive(Clone, Debug)]
pub struct Parsed {
    pub len: usize,
    pub header: Option<Header<Id>>,
    pub hsize: usize,
    /// bytes left right after the header
    pub rem: usize,
    /// `None` when no tally was read
    pub tally: Option<u16>,
    pub members: Vec<(Member<Id>, usize)>,
    pub mem_fail: bool,
    pub items: Vec<Item>,
    /// framing of the custom tail: true when it follows the grammar
    pub tail_ok: bool,
    /// bytes that belong to nothing
    pub trailing: usize,
}

/// Parses following the receiver's grammar: a tally is read whenever at least
/// two bytes follow the header and the kind is not Broadcast.
pub fn parse(kind: CodecKind, data: &[u8]) -> Parsed {
    let mut codec = AnyCodec::new(kind);
    let mut cur: &[u8] = data;
    let mut p = Parsed {
        len: data.len(),
        header: None,
        hsize: 0,
        rem: 0,
        tally: None,
        members: Vec::new(),
        mem_fail: false,
        items: Vec::new(),
        tail_ok: true,
        trailing: 0,
    };
    let header = match codec.decode_header(&mut cur) {
        Ok(h) => h,
        Err(_) => return p,
    };
    p.hsize = data.len() - cur.len();
    p.rem = cur.len();
    let is_broadcast = header.message == Message::Broadcast;
    p.header = Some(header);
    if p.rem >= 2 && !is_broadcast {
        let tally = cur.get_u16();
        p.tally = Some(tally);
        for _ in 0..tally {
            let before = cur.len();
            match codec.decode_member(&mut cur) {
                Ok(m) => p.members.push((m, before - cur.len())),
                Err(_) => {
                    p.mem_fail = true;
                    return p;
                }
            }
        }
    }
    // custom tail
    if !cur.is_empty() && cur.len() < 3 {
        p.tail_ok = false;
        p.trailing = cur.len();
        return p;
    }
    while cur.len() > 2 {
        let l = cur.get_u16() as usize;
        if l == 0 || cur.len() < l {
            p.tail_ok = false;
            p.trailing = cur.len() + 2;
            return p;
        }
        p.items.push(parse_item(&cur[..l]));
        cur.advance(l);
    }
    if !cur.is_empty() {
        p.tail_ok = false;
        p.trailing = cur.len();
    }
    p
}

/// Builds a datagram from parts using the given codec (used by drivers to
/// craft inputs). `tally`: `None` = no member section at all.
pub fn build(
    kind: CodecKind,
    header: &Header<Id>,
    tally: Option<u16>,
    members: &[Member<Id>],
    items: &[Vec<u8>],
) -> Option<Vec<u8>> {
    let mut codec = AnyCodec::new(kind);
    let mut buf: Vec<u8> = Vec::new();
    codec.encode_header(header, &mut buf).ok()?;
    if let Some(t) = tally {
        buf.put_u16(t);
        for m in members {
            codec.encode_member(m, &mut buf).ok()?;
        }
    }
    for it in items {
        buf.put_u16(it.len() as u16);
        buf.put_slice(it);
    }
    Some(buf)
}
