//! C14 driver: stable member sets with n active and d Down records, reached through joins and
//! removals in random order (so the round-robin cursor is wherever prior history left it), then
//! 6n probe rounds with every Ping acknowledged.
use foca::{Header, Member, Message, State, Timer};
use rand::{rngs::SmallRng, seq::SliceRandom, Rng, SeedableRng};
use serde_json::json;

use crate::codec::{self, CodecKind, Mode};
use crate::handler::HandlerCfg;
use crate::id::{Id, Policy};
use crate::node::{Call, Cfg, Effect, Node, NodeCfg, TraceWriter};

pub fn run(seed: u64, sets: usize, nmax: usize, tw: &mut TraceWriter) -> (u64, u64) {
    let mut master = SmallRng::seed_from_u64(seed);
    let mut rounds_total = 0u64;
    let mut sets_done = 0u64;
    for run in 0..sets {
        let mut r = SmallRng::seed_from_u64(master.random());
        let n = r.random_range(1..=nmax);
        let d = r.random_range(0..=3usize);
        let extra = r.random_range(0..=2usize); // members that join and are forgotten again
        tw.env("reset", 0, json!({"run": run, "driver": "c14", "n": n, "d": d, "ordered": true}));
        let mut cfg = Cfg::default();
        cfg.rda = 100;
        let codec = CodecKind::Hand(Mode::Fixed);
        let ncfg = NodeCfg { id: Id::with(1, 0, Policy::None), cfg, codec, handler: HandlerCfg::default(), seed: r.random(), twin: false };
        let mut node = Node::new(0, ncfg, tw, 0);
        node.peer_check = false;
        let own = node.id();
        // build the member set in random order; Down ones and the "extra" ones arrive Alive first
        let mut ops: Vec<Member<Id>> = vec![];
        for a in 0..(n + d + extra) {
            ops.push(Member::new(Id::new(a as u8 + 2, 0), 0, State::Alive));
        }
        ops.shuffle(&mut r);
        let mut now = 0u64;
        let mut probe_timer: Option<Timer<Id>> = None;
        let mut grab = |effects: &[Effect], probe_timer: &mut Option<Timer<Id>>, removes: &mut Vec<Timer<Id>>| {
            for e in effects {
                if let Effect::Timer { timer, .. } = e {
                    match timer {
                        Timer::ProbeRandomMember(_) => *probe_timer = Some(timer.clone()),
                        Timer::RemoveDown(_) => removes.push(timer.clone()),
                        _ => {}
                    }
                }
            }
        };
        let mut removes: Vec<Timer<Id>> = vec![];
        for m in ops {
            now += 10;
            let out = node.call(&Call::ApplyMany(vec![m], true), tw, now);
            grab(&out.effects, &mut probe_timer, &mut removes);
            // a few probe rounds in between so that the cursor moves
            if r.random_range(0..2) == 0 {
                if let Some(t) = probe_timer.take() {
                    now += 10;
                    let out = node.call(&Call::Timer(t), tw, now);
                    grab(&out.effects, &mut probe_timer, &mut removes);
                    ack_round(&mut node, &out.effects, own, codec, tw, &mut now);
                }
            }
        }
        // declare d + extra of them Down (by address order), forget the extra ones
        let mut addrs: Vec<u8> = (0..(n + d + extra)).map(|a| a as u8 + 2).collect();
        addrs.shuffle(&mut r);
        for (k, a) in addrs.iter().take(d + extra).enumerate() {
            now += 10;
            let out = node.call(&Call::ApplyMany(vec![Member::new(Id::new(*a, 0), 0, State::Down)], true), tw, now);
            let mut rm = vec![];
            grab(&out.effects, &mut probe_timer, &mut rm);
            if k >= d {
                for t in rm {
                    now += 10;
                    node.call(&Call::Timer(t), tw, now);
                }
            }
        }
        // every third set: some (or all) of the active members are Suspect - gossiped suspicions at their
        // incarnation, never refuted and never timing out here: still active, still to be pinged in turn
        if run % 3 == 1 {
            let mut act: Vec<Id> = node.foca.iter_members().map(|m| *m.id()).collect();
            act.shuffle(&mut r);
            let k = if r.random_range(0..2) == 0 { act.len() } else { r.random_range(1..=act.len().max(1)) };
            let sus: Vec<Member<Id>> = act.iter().take(k).map(|i| Member::new(*i, 0, State::Suspect)).collect();
            if !sus.is_empty() {
                now += 10;
                let out = node.call(&Call::ApplyMany(sus, true), tw, now);
                let mut rm = vec![];
                grab(&out.effects, &mut probe_timer, &mut rm);
            }
        }
        // the stable phase: 6n rounds, every Ping acknowledged (every 40th set: 300 rounds, so that the
        // u8 probe number wraps around)
        let rounds = if run % 40 == 7 { 300 } else { 6 * n };
        for _ in 0..rounds {
            let Some(t) = probe_timer.take() else { break };
            now += 1500;
            let out = node.call(&Call::Timer(t), tw, now);
            let mut rm = vec![];
            grab(&out.effects, &mut probe_timer, &mut rm);
            ack_round(&mut node, &out.effects, own, codec, tw, &mut now);
            rounds_total += 1;
        }
        // every 40th set: 270 idle/active cycles, so that the u8 timer token wraps around
        if run % 40 == 23 {
            let ids: Vec<Id> = node.foca.iter_members().map(|m| *m.id()).collect();
            for cyc in 0..270u32 {
                let inc = cyc as u16;
                // everyone Down -> Idle; forget them; everyone Alive again (higher incarnation) -> Active
                now += 10;
                let out = node.call(&Call::ApplyMany(ids.iter().map(|i| Member::new(*i, inc, State::Down)).collect(), false), tw, now);
                let mut rm = vec![];
                grab(&out.effects, &mut probe_timer, &mut rm);
                for t in rm {
                    now += 10;
                    node.call(&Call::Timer(t), tw, now);
                }
                now += 10;
                let out = node.call(&Call::ApplyMany(ids.iter().map(|i| Member::new(*i, inc + 1, State::Alive)).collect(), false), tw, now);
                let mut rm = vec![];
                grab(&out.effects, &mut probe_timer, &mut rm);
                // a probe round in the new epoch, and the (stale) probe timer of the previous one if any
                if cyc % 9 == 0 {
                    if let Some(t) = probe_timer.take() {
                        now += 1500;
                        let out = node.call(&Call::Timer(t), tw, now);
                        let mut rm = vec![];
                        grab(&out.effects, &mut probe_timer, &mut rm);
                        ack_round(&mut node, &out.effects, own, codec, tw, &mut now);
                    }
                }
            }
        }
        sets_done += 1;
        tw.env("end", now, json!({"run": run}));
    }
    (sets_done, rounds_total)
}

/// answers the Ping of this round with an Ack and fires the indirect-probe timer
fn ack_round(node: &mut Node, effects: &[Effect], own: Id, codec: CodecKind, tw: &mut TraceWriter, now: &mut u64) {
    let mut indirect = None;
    let mut ping = None;
    for e in effects {
        match e {
            Effect::Send { dst, data } => {
                if let Some(h) = codec::parse(codec, data).header {
                    if let Message::Ping(n) = h.message {
                        ping = Some((*dst, n));
                    }
                }
            }
            Effect::Timer { timer: t @ Timer::SendIndirectProbe { .. }, .. } => indirect = Some(t.clone()),
            _ => {}
        }
    }
    if let Some((dst, n)) = ping {
        let header = Header { src: dst, src_incarnation: 0, dst: own, message: Message::Ack(n) };
        if let Some(b) = codec::build(codec, &header, None, &[], &[]) {
            *now += 20;
            node.call(&Call::Data(b), tw, *now);
        }
    }
    if let Some(t) = indirect {
        *now += 500;
        node.call(&Call::Timer(t), tw, *now);
    }
}
