//! One real `Foca` instance wrapped so that every public call is recorded as
//! one trace event: decoded arguments, result, ordered Runtime effects,
//! public view and hook snapshot. Panics are data (`res:"Panic"`).
use std::num::{NonZeroU8, NonZeroUsize};
use std::panic::{catch_unwind, AssertUnwindSafe};
use std::time::Duration;

use foca::{
    AccumulatingRuntime, Config, Foca, Header, Member, Message, Notification, OwnedNotification,
    PeriodicParams, Runtime, State, Timer,
};
use rand::{rngs::SmallRng, RngCore, SeedableRng};
use serde_json::{json, Value};

use crate::codec::{self, AnyCodec, CodecKind, Parsed};
use crate::handler::{HLog, Handler, HandlerCfg};
use crate::id::Id;

// ------------------------------------------------------------------ rng

pub struct CountRng {
    inner: SmallRng,
    pub draws: u64,
}
impl CountRng {
    pub fn new(seed: u64) -> Self {
        CountRng { inner: SmallRng::seed_from_u64(seed), draws: 0 }
    }
}
impl RngCore for CountRng {
    fn next_u32(&mut self) -> u32 {
        self.draws += 1;
        self.inner.next_u32()
    }
    fn next_u64(&mut self) -> u64 {
        self.draws += 1;
        self.inner.next_u64()
    }
    fn fill_bytes(&mut self, dst: &mut [u8]) {
        self.draws += 1;
        self.inner.fill_bytes(dst)
    }
}

// A shared counter so that we can read the draw count while foca owns the rng
pub struct SharedRng(pub std::rc::Rc<std::cell::RefCell<CountRng>>);
impl RngCore for SharedRng {
    fn next_u32(&mut self) -> u32 {
        self.0.borrow_mut().next_u32()
    }
    fn next_u64(&mut self) -> u64 {
        self.0.borrow_mut().next_u64()
    }
    fn fill_bytes(&mut self, dst: &mut [u8]) {
        self.0.borrow_mut().fill_bytes(dst)
    }
}

// ------------------------------------------------------------------ effects

#[derive(Clone, Debug, PartialEq, Eq)]
pub enum Effect {
    Send { dst: Id, data: Vec<u8> },
    Timer { timer: Timer<Id>, after: Duration },
    Notify(OwnedNotification<Id>),
}

#[derive(Default)]
pub struct RecRuntime {
    pub effects: Vec<Effect>,
}
impl Runtime<Id> for RecRuntime {
    fn notify(&mut self, n: Notification<'_, Id>) {
        self.effects.push(Effect::Notify(n.to_owned()));
    }
    fn send_to(&mut self, to: Id, data: &[u8]) {
        self.effects.push(Effect::Send { dst: to, data: data.to_vec() });
    }
    fn submit_after(&mut self, event: Timer<Id>, after: Duration) {
        self.effects.push(Effect::Timer { timer: event, after });
    }
}

// ------------------------------------------------------------------ calls

#[derive(Clone, Debug)]
pub enum Call {
    Data(Vec<u8>),
    Timer(Timer<Id>),
    ApplyMany(Vec<Member<Id>>, bool),
    Announce(Id),
    Gossip,
    Broadcast,
    Leave,
    ChangeId(Id),
    Reuse,
    AddBcast(Vec<u8>),
    SetConfig(Config),
}

#[derive(Clone, Debug, PartialEq, Eq)]
pub enum Res {
    Ok,
    /// add_broadcast only: Ok(true) / Ok(false)
    OkBool(bool),
    Err(&'static str),
    Panic(String),
}

impl Res {
    pub fn json(&self) -> Value {
        match self {
            Res::Ok => json!("Ok"),
            Res::OkBool(true) => json!("OkTrue"),
            Res::OkBool(false) => json!("OkFalse"),
            Res::Err(k) => json!(format!("Err:{k}")),
            Res::Panic(_) => json!("Panic"),
        }
    }
    pub fn is_panic(&self) -> bool {
        matches!(self, Res::Panic(_))
    }
}

fn err_kind(e: &foca::Error) -> &'static str {
    use foca::Error::*;
    match e {
        DataTooBig => "DataTooBig",
        NotUndead => "NotUndead",
        SameIdentity => "SameIdentity",
        NotConnected => "NotConnected",
        IncompleteProbeCycle => "IncompleteProbeCycle",
        DataFromOurselves => "DataFromOurselves",
        IndirectForOurselves => "IndirectForOurselves",
        MalformedPacket => "MalformedPacket",
        Encode(_) => "Encode",
        Decode(_) => "Decode",
        CustomBroadcast(_) => "CustomBroadcast",
        InvalidConfig => "InvalidConfig",
    }
}

pub struct Outcome {
    pub res: Res,
    pub effects: Vec<Effect>,
}

// ------------------------------------------------------------------ config helpers

#[derive(Clone, Debug)]
pub struct Cfg {
    pub period: u64,
    pub rtt: u64,
    pub fanout: usize,
    pub maxtx: u8,
    pub s2d: u64,
    pub rda: u64,
    pub maxpkt: usize,
    pub notifydown: bool,
    pub pa: Option<(u64, usize)>,
    pub pad: Option<(u64, usize)>,
    pub pg: Option<(u64, usize)>,
}

impl Default for Cfg {
    fn default() -> Self {
        Cfg {
            period: 1500,
            rtt: 500,
            fanout: 3,
            maxtx: 10,
            s2d: 3000,
            rda: 20_000,
            maxpkt: 1400,
            notifydown: false,
            pa: None,
            pad: None,
            pg: None,
        }
    }
}

impl Cfg {
    pub fn to_config(&self) -> Config {
        let pp = |p: &Option<(u64, usize)>| {
            p.map(|(f, n)| PeriodicParams {
                frequency: Duration::from_millis(f),
                num_members: NonZeroUsize::new(n.max(1)).unwrap(),
            })
        };
        Config {
            probe_period: Duration::from_millis(self.period),
            probe_rtt: Duration::from_millis(self.rtt),
            num_indirect_probes: NonZeroUsize::new(self.fanout.max(1)).unwrap(),
            max_transmissions: NonZeroU8::new(self.maxtx.max(1)).unwrap(),
            suspect_to_down_after: Duration::from_millis(self.s2d),
            remove_down_after: Duration::from_millis(self.rda),
            max_packet_size: NonZeroUsize::new(self.maxpkt.max(1)).unwrap(),
            notify_down_members: self.notifydown,
            periodic_announce: pp(&self.pa),
            periodic_announce_to_down_members: pp(&self.pad),
            periodic_gossip: pp(&self.pg),
        }
    }
}

fn ms(d: Duration) -> u64 {
    (d.as_millis() as u64).min(2_000_000_000)
}

pub fn config_json(c: &Config) -> Value {
    let pp = |p: &Option<PeriodicParams>| match p {
        None => json!([]),
        Some(p) => json!([{"f": ms(p.frequency), "n": p.num_members.get().min(1_000_000)}]),
    };
    json!({
        "period": ms(c.probe_period),
        "rtt": ms(c.probe_rtt),
        "fanout": c.num_indirect_probes.get().min(1_000_000),
        "maxtx": c.max_transmissions.get(),
        "s2d": ms(c.suspect_to_down_after),
        "rda": ms(c.remove_down_after),
        "maxpkt": c.max_packet_size.get().min(2_000_000_000),
        "notifydown": c.notify_down_members,
        "pa": pp(&c.periodic_announce),
        "pad": pp(&c.periodic_announce_to_down_members),
        "pg": pp(&c.periodic_gossip),
    })
}

// ------------------------------------------------------------------ json

pub fn id_json(id: &Id) -> Value {
    json!([id.addr, id.gen])
}
pub const NO_ID: Id = Id::new(0, 0);

pub fn st_name(s: State) -> &'static str {
    match s {
        State::Alive => "A",
        State::Suspect => "S",
        State::Down => "D",
    }
}

pub fn member_json(m: &Member<Id>) -> Value {
    json!({"id": id_json(m.id()), "inc": m.incarnation(), "st": st_name(m.state())})
}

pub fn msg_json(m: &Message<Id>) -> Value {
    let (k, n, id) = match m {
        Message::Ping(n) => ("Ping", *n, NO_ID),
        Message::Ack(n) => ("Ack", *n, NO_ID),
        Message::PingReq { target, probe_number } => ("PingReq", *probe_number, *target),
        Message::IndirectPing { origin, probe_number } => ("IndirectPing", *probe_number, *origin),
        Message::IndirectAck { target, probe_number } => ("IndirectAck", *probe_number, *target),
        Message::ForwardedAck { origin, probe_number } => ("ForwardedAck", *probe_number, *origin),
        Message::Announce => ("Announce", 0, NO_ID),
        Message::Feed => ("Feed", 0, NO_ID),
        Message::Gossip => ("Gossip", 0, NO_ID),
        Message::Broadcast => ("Broadcast", 0, NO_ID),
        Message::TurnUndead => ("TurnUndead", 0, NO_ID),
    };
    json!({"k": k, "n": n, "id": id_json(&id)})
}

pub fn header_json(h: &Header<Id>) -> Value {
    json!({"src": id_json(&h.src), "inc": h.src_incarnation, "dst": id_json(&h.dst), "msg": msg_json(&h.message)})
}

pub fn timer_json(t: &Timer<Id>) -> Value {
    let (k, tok, id, inc): (&str, i64, Id, u16) = match t {
        Timer::ProbeRandomMember(tok) => ("Probe", *tok as i64, NO_ID, 0),
        Timer::SendIndirectProbe { probed_id, token } => ("Indirect", *token as i64, *probed_id, 0),
        Timer::ChangeSuspectToDown { member_id, incarnation, token } => {
            ("Suspect", *token as i64, *member_id, *incarnation)
        }
        Timer::PeriodicAnnounce(tok) => ("Announce", *tok as i64, NO_ID, 0),
        Timer::PeriodicAnnounceDown(tok) => ("AnnounceDown", *tok as i64, NO_ID, 0),
        Timer::PeriodicGossip(tok) => ("Gossip", *tok as i64, NO_ID, 0),
        Timer::RemoveDown(id) => ("RemoveDown", -1, *id, 0),
    };
    json!({"k": k, "tok": tok, "id": id_json(&id), "inc": inc})
}

pub fn notif_json(n: &OwnedNotification<Id>) -> Value {
    let (k, a, b) = match n {
        OwnedNotification::MemberUp(i) => ("MemberUp", *i, NO_ID),
        OwnedNotification::MemberDown(i) => ("MemberDown", *i, NO_ID),
        OwnedNotification::Rename(a, b) => ("Rename", *a, *b),
        OwnedNotification::Active => ("Active", NO_ID, NO_ID),
        OwnedNotification::Idle => ("Idle", NO_ID, NO_ID),
        OwnedNotification::Defunct => ("Defunct", NO_ID, NO_ID),
        OwnedNotification::Rejoin(i) => ("Rejoin", *i, NO_ID),
    };
    json!({"k": k, "id": id_json(&a), "id2": id_json(&b)})
}

/// A datagram as the independent parser sees it.
pub fn parsed_json(p: &Parsed) -> Value {
    let hdr = match &p.header {
        Some(h) => header_json(h),
        None => header_json(&Header {
            src: NO_ID,
            src_incarnation: 0,
            dst: NO_ID,
            message: Message::Gossip,
        }),
    };
    json!({
        "len": p.len.min(2_000_000_000),
        "hok": p.header.is_some(),
        "h": hdr,
        "hs": p.hsize,
        "rem": p.rem,
        "tally": p.tally.map_or(-1i64, |t| t as i64),
        "mem": p.members.iter().map(|(m, _)| member_json(m)).collect::<Vec<_>>(),
        "msz": p.members.iter().map(|(_, s)| *s).collect::<Vec<_>>(),
        "memfail": p.mem_fail,
        "items": p.items.iter().map(item_json).collect::<Vec<_>>(),
        "tailok": p.tail_ok,
        "trail": p.trailing,
    })
}

pub fn item_json(i: &codec::Item) -> Value {
    json!({"key": i.key, "ver": i.ver, "sz": i.size, "intact": i.intact})
}

pub fn effect_json(kind: CodecKind, e: &Effect) -> Value {
    match e {
        Effect::Send { dst, data } => {
            json!({"k": "send", "dst": id_json(dst), "d": parsed_json(&codec::parse(kind, data))})
        }
        Effect::Timer { timer, after } => {
            json!({"k": "timer", "t": timer_json(timer), "after": ms(*after)})
        }
        Effect::Notify(n) => json!({"k": "notify", "n": notif_json(n)}),
    }
}

pub fn hlog_json(l: &HLog) -> Value {
    json!({
        "item": item_json(&l.item),
        "from": l.sender.map_or(json!([]), |s| json!([id_json(&s)])),
        "v": l.verdict,
    })
}

// ------------------------------------------------------------------ node

pub type F = Foca<Id, AnyCodec, SharedRng, Handler>;

#[derive(Clone, Debug)]
pub struct NodeCfg {
    pub id: Id,
    pub cfg: Cfg,
    pub codec: CodecKind,
    pub handler: HandlerCfg,
    pub seed: u64,
    pub twin: bool,
}

pub struct Node {
    pub idx: usize,
    pub ncfg: NodeCfg,
    pub foca: F,
    pub rng: std::rc::Rc<std::cell::RefCell<CountRng>>,
    pub twin: Option<(F, AccumulatingRuntime<Id>)>,
    pub poisoned: bool,
    pub peer_check: bool,
    last_state: String,
}

pub struct TraceWriter {
    pub out: Box<dyn std::io::Write>,
    pub seq: u64,
    pub events: u64,
    pub panics: u64,
    pub enabled: bool,
    /// compact events for the cluster monitors (no conformance)
    pub lite: bool,
}

impl TraceWriter {
    pub fn to_file(path: &str) -> Self {
        let f = std::fs::File::create(path).expect("create trace file");
        TraceWriter {
            out: Box::new(std::io::BufWriter::with_capacity(1 << 20, f)),
            seq: 0,
            events: 0,
            panics: 0,
            enabled: true,
            lite: false,
        }
    }
    pub fn null() -> Self {
        TraceWriter { out: Box::new(std::io::sink()), seq: 0, events: 0, panics: 0, enabled: false, lite: false }
    }
    pub fn write(&mut self, mut v: Value) {
        self.seq += 1;
        self.events += 1;
        if !self.enabled {
            return;
        }
        v["seq"] = json!(self.seq);
        serde_json::to_writer(&mut self.out, &v).unwrap();
        self.out.write_all(b"\n").unwrap();
    }
    /// environment / bookkeeping event
    pub fn env(&mut self, what: &str, now: u64, extra: Value) {
        let mut v = json!({"ev": what, "now": now});
        if let Value::Object(m) = extra {
            for (k, x) in m {
                v[k] = x;
            }
        }
        self.write(v);
    }
    pub fn flush(&mut self) {
        self.out.flush().unwrap();
    }
}

fn mk_foca(nc: &NodeCfg, rng: SharedRng) -> F {
    Foca::with_custom_broadcast(
        nc.id,
        nc.cfg.to_config(),
        rng,
        AnyCodec::new(nc.codec),
        Handler::new(nc.handler),
    )
}

pub fn install_quiet_panic_hook() {
    std::panic::set_hook(Box::new(|_| {}));
}

impl Node {
    /// Creates the instance and writes the `new` event.
    pub fn new(idx: usize, ncfg: NodeCfg, tw: &mut TraceWriter, now: u64) -> Node {
        let rng = std::rc::Rc::new(std::cell::RefCell::new(CountRng::new(ncfg.seed)));
        let foca = mk_foca(&ncfg, SharedRng(rng.clone()));
        let twin = if ncfg.twin {
            let r2 = std::rc::Rc::new(std::cell::RefCell::new(CountRng::new(ncfg.seed)));
            Some((mk_foca(&ncfg, SharedRng(r2)), AccumulatingRuntime::new()))
        } else {
            None
        };
        let node = Node { idx, ncfg, foca, rng, twin, poisoned: false, peer_check: true, last_state: String::new() };
        let v = json!({
            "ev": "new", "now": now, "node": idx,
            "codec": node.ncfg.codec.name(),
            "pol": node.ncfg.id.pol.name(),
            "hrel": node.ncfg.handler.rel.name(),
            "hpred": node.ncfg.handler.pred.name(),
            "hacc": node.ncfg.handler.accept.name(),
            "pub": node.pub_json(),
            "hook": node.hook_json(),
        });
        tw.write(v);
        node
    }

    pub fn id(&self) -> Id {
        *self.foca.identity()
    }

    pub fn pub_json(&self) -> Value {
        json!({
            "id": id_json(self.foca.identity()),
            "members": self.foca.iter_members().map(member_json).collect::<Vec<_>>(),
            "state": self.foca.iter_membership_state().map(member_json).collect::<Vec<_>>(),
            "num": self.foca.num_members(),
            "ubl": self.foca.updates_backlog(),
            "cbl": self.foca.custom_broadcast_backlog(),
        })
    }

    pub fn hook_json(&self) -> Value {
        let s = self.foca.verif_snapshot();
        let mut codec = AnyCodec::new(self.ncfg.codec);
        let mut upd: Vec<Value> = s
            .updates
            .iter()
            .map(|(data, tx)| {
                let mut cur: &[u8] = data;
                let m = foca::Codec::decode_member(&mut codec, &mut cur);
                match m {
                    Ok(m) => json!({"m": member_json(&m), "sz": data.len(), "tx": (*tx).min(1_000_000)}),
                    Err(_) => json!({"m": member_json(&Member::new(NO_ID, 0, State::Alive)), "sz": data.len(), "tx": (*tx).min(1_000_000)}),
                }
            })
            .collect();
        upd.sort_by_key(|v| v.to_string());
        let mut cus: Vec<Value> = s
            .custom_broadcasts
            .iter()
            .map(|(data, tx)| {
                let it = codec::parse_item(data);
                json!({"key": it.key, "ver": it.ver, "sz": it.size, "intact": it.intact, "tx": (*tx).min(1_000_000)})
            })
            .collect();
        cus.sort_by_key(|v| v.to_string());
        json!({
            "inc": s.incarnation,
            "tok": s.timer_token,
            "conn": match s.connection_state { 0 => "D", 1 => "C", _ => "U" },
            "probe": {
                "direct": s.probe_direct.iter().map(member_json).collect::<Vec<_>>(),
                "ind": s.probe_indirect.iter().map(id_json).collect::<Vec<_>>(),
                "n": s.probe_number,
                "ack": s.probe_direct_ack_ok,
                "iacks": s.probe_indirect_ack_count.min(1_000_000),
                "reached": s.probe_reached_indirect,
            },
            "order": s.members.iter().map(member_json).collect::<Vec<_>>(),
            "cursor": if s.cursor > 1_000_000_000 { -1i64 } else { s.cursor as i64 },
            "nactive": s.num_active.min(1_000_000_000),
            "upd": upd,
            "cus": cus,
            "bufcap": s.send_buf_capacity.min(2_000_000_000),
            "cfg": config_json(&s.config),
            "draws": self.rng.borrow().draws.min(2_000_000_000),
        })
    }

    fn args_json(&self, c: &Call) -> (&'static str, Value) {
        match c {
            Call::Data(d) => ("data", parsed_json(&codec::parse(self.ncfg.codec, d))),
            Call::Timer(t) => ("timer", timer_json(t)),
            Call::ApplyMany(ms, b) => (
                "apply_many",
                json!({"updates": ms.iter().map(member_json).collect::<Vec<_>>(), "bcast": b}),
            ),
            Call::Announce(id) => ("announce", json!({"dst": id_json(id)})),
            Call::Gossip => ("gossip", json!({})),
            Call::Broadcast => ("broadcast", json!({})),
            Call::Leave => ("leave", json!({})),
            Call::ChangeId(id) => ("change_identity", json!({"id": id_json(id)})),
            Call::Reuse => ("reuse", json!({})),
            Call::AddBcast(d) => (
                "add_broadcast",
                json!({"len": d.len(), "item": item_json(&codec::parse_item(d))}),
            ),
            Call::SetConfig(c) => ("set_config", json!({"cfg": config_json(c)})),
        }
    }

    fn exec<R: Runtime<Id>>(f: &mut F, c: &Call, rt: R) -> Res {
        let r: Result<Option<bool>, foca::Error> = match c {
            Call::Data(d) => f.handle_data(d, rt).map(|_| None),
            Call::Timer(t) => f.handle_timer(t.clone(), rt).map(|_| None),
            Call::ApplyMany(ms, b) => f.apply_many(ms.iter().cloned(), *b, rt).map(|_| None),
            Call::Announce(id) => f.announce(*id, rt).map(|_| None),
            Call::Gossip => f.gossip(rt).map(|_| None),
            Call::Broadcast => f.broadcast(rt).map(|_| None),
            Call::Leave => f.leave_cluster(rt).map(|_| None),
            Call::ChangeId(id) => f.change_identity(*id, rt).map(|_| None),
            Call::Reuse => f.reuse_down_identity().map(|_| None),
            Call::AddBcast(d) => f.add_broadcast(d).map(Some),
            Call::SetConfig(c) => f.set_config(c.clone()).map(|_| None),
        };
        match r {
            Ok(None) => Res::Ok,
            Ok(Some(b)) => Res::OkBool(b),
            Err(e) => Res::Err(err_kind(&e)),
        }
    }

    /// Effect as JSON; a datagram is also handed to a scratch peer (same codec,
    /// configuration and handler settings, identity = destination) and the
    /// peer's verdict is recorded.
    fn effect_json_peer(&self, e: &Effect) -> Value {
        let mut v = effect_json(self.ncfg.codec, e);
        if let Effect::Send { dst, data } = e {
            if self.peer_check {
                let snap_cfg = self.foca.verif_snapshot().config;
                let rng = std::rc::Rc::new(std::cell::RefCell::new(CountRng::new(7)));
                let mut peer: F = Foca::with_custom_broadcast(
                    *dst,
                    snap_cfg,
                    SharedRng(rng),
                    AnyCodec::new(self.ncfg.codec),
                    Handler::new(self.ncfg.handler),
                );
                let mut rt = RecRuntime::default();
                let r = catch_unwind(AssertUnwindSafe(|| peer.handle_data(data, &mut rt)));
                v["peer"] = match r {
                    Ok(Ok(())) => json!("Ok"),
                    Ok(Err(e)) => json!(format!("Err:{}", err_kind(&e))),
                    Err(_) => json!("Panic"),
                };
            }
        }
        v
    }

    /// compact event: what the cluster-level monitors read
    fn lite_json(&mut self, c: &Call, res: &Res, effects: &[Effect], now: u64, pre_id: Id) -> Value {
        let mut k = String::new();
        let mut from = NO_ID;
        let mut din: Vec<Value> = vec![];
        let mut acc = false;
        let name = match c {
            Call::Data(d) => {
                let p = codec::parse(self.ncfg.codec, d);
                if let Some(h) = &p.header {
                    k = crate::sim::kind_name(&h.message).to_string();
                    from = h.src;
                    // accepted as addressed to this instance (as far as the public identity tells)
                    acc = h.dst == pre_id || (h.message == foca::Message::Announce && h.dst.addr == pre_id.addr);
                }
                din = p.members.iter().map(|(m, _)| member_json(m)).collect();
                "data"
            }
            Call::Timer(t) => {
                k = timer_json(t)["k"].as_str().unwrap_or("").to_string();
                "timer"
            }
            Call::ApplyMany(ms, _) => {
                din = ms.iter().map(member_json).collect();
                "apply_many"
            }
            Call::Announce(_) => "announce",
            Call::Gossip => "gossip",
            Call::Broadcast => "broadcast",
            Call::Leave => "leave",
            Call::ChangeId(_) => "change_identity",
            Call::Reuse => "reuse",
            Call::AddBcast(_) => "add_broadcast",
            Call::SetConfig(_) => "set_config",
        };
        let mut notes = vec![];
        let mut sk = vec![];
        let mut sd = vec![];
        let mut sm = vec![];
        for e in effects {
            match e {
                Effect::Notify(n) => notes.push(notif_json(n)),
                Effect::Send { dst, data } => {
                    let p = codec::parse(self.ncfg.codec, data);
                    sk.push(json!(p.header.map(|h| crate::sim::kind_name(&h.message)).unwrap_or("?")));
                    sd.push(id_json(dst));
                    sm.push(json!(p.members.len()));
                }
                Effect::Timer { .. } => {}
            }
        }
        let (state, same) = if self.poisoned {
            (json!([]), true)
        } else {
            let st = json!(self.foca.iter_membership_state().map(member_json).collect::<Vec<_>>());
            let key = st.to_string();
            if key == self.last_state {
                (json!([]), true)
            } else {
                self.last_state = key;
                (st, false)
            }
        };
        let idv = if self.poisoned { id_json(&NO_ID) } else { id_json(self.foca.identity()) };
        json!({"ev": "call", "lite": true, "now": now, "node": self.idx, "call": name, "res": res.json(),
               "k": k, "from": id_json(&from), "din": din, "acc": acc, "notes": notes, "sk": sk, "sd": sd, "sm": sm,
               "id": idv, "state": state, "same": same})
    }

    /// Performs one public call and records it.
    pub fn call(&mut self, c: &Call, tw: &mut TraceWriter, now: u64) -> Outcome {
        self.call_tagged(c, tw, now, Value::Null)
    }

    pub fn call_tagged(&mut self, c: &Call, tw: &mut TraceWriter, now: u64, tag: Value) -> Outcome {
        let mut rt = RecRuntime::default();
        let pre_id = if self.poisoned { NO_ID } else { self.id() };
        let res = if self.poisoned {
            Res::Err("Poisoned")
        } else {
            let foca = &mut self.foca;
            match catch_unwind(AssertUnwindSafe(|| Self::exec(foca, c, &mut rt))) {
                Ok(r) => r,
                Err(p) => {
                    self.poisoned = true;
                    let msg = p
                        .downcast_ref::<String>()
                        .cloned()
                        .or_else(|| p.downcast_ref::<&str>().map(|s| s.to_string()))
                        .unwrap_or_default();
                    Res::Panic(msg)
                }
            }
        };
        if res.is_panic() {
            tw.panics += 1;
        }
        let hlog = self.foca.verif_broadcast_handler().take_log();
        // twin through AccumulatingRuntime
        let mut acc = Value::Null;
        if let Some((tf, art)) = self.twin.as_mut() {
            if !res.is_panic() {
                let tres = catch_unwind(AssertUnwindSafe(|| Self::exec(tf, c, &mut *art)));
                let _ = tf.verif_broadcast_handler().take_log();
                let mut sends = vec![];
                while let Some((dst, data)) = art.to_send() {
                    sends.push(effect_json(self.ncfg.codec, &Effect::Send { dst, data: data.to_vec() }));
                }
                let mut timers = vec![];
                while let Some((after, timer)) = art.to_schedule() {
                    timers.push(effect_json(self.ncfg.codec, &Effect::Timer { timer, after }));
                }
                let mut notes = vec![];
                while let Some(n) = art.to_notify() {
                    notes.push(effect_json(self.ncfg.codec, &Effect::Notify(n)));
                }
                acc = json!({
                    "res": match tres { Ok(r) => r.json(), Err(_) => json!("Panic") },
                    "send": sends, "timer": timers, "notify": notes,
                    "backlog": art.backlog(),
                });
            }
        }
        if tw.enabled && tw.lite {
            let v = self.lite_json(c, &res, &rt.effects, now, pre_id);
            tw.write(v);
        } else if tw.enabled {
            let (name, args) = self.args_json(c);
            let mut v = json!({
                "ev": "call", "now": now, "node": self.idx,
                "call": name, "args": args,
                "res": res.json(),
                "out": rt.effects.iter().map(|e| self.effect_json_peer(e)).collect::<Vec<_>>(),
                "hlog": hlog.iter().map(hlog_json).collect::<Vec<_>>(),
            });
            if let Res::Panic(m) = &res {
                v["panic"] = json!(m);
            }
            if !self.poisoned {
                v["pub"] = self.pub_json();
                v["hook"] = self.hook_json();
            } else {
                v["pub"] = json!({});
                v["hook"] = json!({});
            }
            if !acc.is_null() {
                v["acc"] = acc;
            }
            if !tag.is_null() {
                v["tag"] = tag;
            }
            tw.write(v);
        } else {
            tw.seq += 1;
            tw.events += 1;
        }
        Outcome { res, effects: rt.effects }
    }
}
