//! fv — conformance / exploration harness for caio/foca (see /verif/DESIGN.md)
mod c01;
mod c11;
mod wrap;
mod c14;
mod cfgsweep;
mod cluster;
mod codec;
mod handler;
mod id;
mod node;
mod replay;
mod rnd;
mod sim;
mod twin;

use std::collections::HashMap;

use codec::CodecKind;
use node::TraceWriter;

fn parse_args() -> (String, HashMap<String, String>) {
    let mut args = std::env::args().skip(1);
    let cmd = args.next().unwrap_or_else(|| "help".into());
    let mut kv = HashMap::new();
    let rest: Vec<String> = args.collect();
    let mut i = 0;
    while i < rest.len() {
        let k = rest[i].trim_start_matches("--").to_string();
        if i + 1 < rest.len() && !rest[i + 1].starts_with("--") {
            kv.insert(k, rest[i + 1].clone());
            i += 2;
        } else {
            kv.insert(k, "true".into());
            i += 1;
        }
    }
    (cmd, kv)
}

fn get<T: std::str::FromStr>(kv: &HashMap<String, String>, k: &str, d: T) -> T {
    kv.get(k).and_then(|v| v.parse().ok()).unwrap_or(d)
}
fn flag(kv: &HashMap<String, String>, k: &str) -> bool {
    kv.get(k).is_some_and(|v| v != "false" && v != "0")
}

fn main() {
    node::install_quiet_panic_hook();
    let (cmd, kv) = parse_args();
    let out = kv.get("out").cloned();
    let mut tw = match &out {
        Some(p) => TraceWriter::to_file(p),
        None => TraceWriter::null(),
    };
    let seed: u64 = get(&kv, "seed", 1);
    match cmd.as_str() {
        "rnd" => {
            let codecs = kv
                .get("codecs")
                .map(|s| s.split(',').map(CodecKind::parse_name).collect())
                .unwrap_or_else(|| vec![CodecKind::parse_name("fixed")]);
            let opts = rnd::RndOpts {
                seed,
                runs: get(&kv, "runs", 10),
                steps: get(&kv, "steps", 200),
                forge: flag(&kv, "forge"),
                junk: flag(&kv, "junk"),
                resize: flag(&kv, "resize"),
                ordered: flag(&kv, "ordered"),
                twin: flag(&kv, "twin"),
                codecs,
                bigincs: !flag(&kv, "nobigincs"),
            };
            rnd::run(&opts, &mut tw);
        }
        "c02" | "c03" | "c04" | "c05" | "c18" => {
            tw.lite = !flag(&kv, "full");
            let th = flag(&kv, "thorough");
            let cov = match cmd.as_str() {
                "c02" => cluster::c02(seed, get(&kv, "runs", 30), get(&kv, "nmax", 8), &mut tw),
                "c03" => cluster::c03(seed, th, get(&kv, "maxruns", u64::MAX), &mut tw),
                "c04" => {
                    let nl: Vec<usize> = kv.get("nlist").map(|s| s.split(',').filter_map(|x| x.parse().ok()).collect()).unwrap_or_default();
                    cluster::c04(seed, th, get(&kv, "maxruns", u64::MAX), &nl, &mut tw)
                }
                "c05" => cluster::c05(seed, th, get(&kv, "maxruns", u64::MAX), &mut tw),
                _ => cluster::c18(seed, th, &mut tw),
            };
            tw.flush();
            println!("{}", cov.json(&tw));
            return;
        }
        "c11" => {
            let n = c11::run(&mut tw);
            tw.flush();
            println!("{{\"events\":{},\"panics\":{},\"cov_cases\":{}}}", tw.events, tw.panics, n);
            return;
        }
        "wrap" => {
            let runs = kv.get("runs").and_then(|v| v.parse().ok()).unwrap_or(8);
            let steps = kv.get("steps").and_then(|v| v.parse().ok()).unwrap_or(900);
            let (w, b, s) = wrap::run(seed, runs, steps, &mut tw);
            tw.flush();
            println!("{{\"events\":{},\"panics\":{},\"cov_token_wraps\":{},\"cov_epoch_changes\":{},\"cov_wrap_going_idle\":{},\"cov_wrap_reset\":{},\"cov_wrap_defunct\":{}}}",
                     tw.events, tw.panics, w, b, s[0], s[1], s[2]);
            return;
        }
        "replay" => {
            let (b, st) = replay::run(kv.get("scripts").expect("--scripts FILE"), &mut tw);
            tw.flush();
            println!("{{\"events\":{},\"panics\":{},\"cov_behaviours\":{},\"cov_steps\":{}}}", tw.events, tw.panics, b, st);
            return;
        }
        "cfgsweep" => {
            let n = cfgsweep::run(seed, flag(&kv, "full"), &mut tw);
            tw.flush();
            println!("{{\"events\":{},\"panics\":{},\"cov_configs\":{}}}", tw.events, tw.panics, n.min(2_000_000_000));
            return;
        }
        "twin" => {
            let (base, ins) = twin::run(seed, get(&kv, "runs", 40), get(&kv, "steps", 200), &mut tw);
            tw.flush();
            println!("{{\"events\":{},\"panics\":{},\"cov_base\":{},\"cov_inserted\":{}}}", tw.events, tw.panics, base, ins);
            return;
        }
        "c14" => {
            let (sets, rounds) = c14::run(seed, get(&kv, "sets", 200), get(&kv, "nmax", 6), &mut tw);
            tw.flush();
            println!("{{\"events\":{},\"panics\":{},\"cov_sets\":{},\"cov_rounds\":{}}}", tw.events, tw.panics, sets, rounds);
            return;
        }
        "c01" => {
            let st = c01::run(seed, flag(&kv, "thorough"), &mut tw);
            tw.flush();
            println!("{{\"events\":{},\"panics\":{},\"cov_groups\":{},\"cov_nontrivial\":{}}}", tw.events, tw.panics, st.groups, st.nontrivial);
            return;
        }
        _ => {
            eprintln!("usage: fv <rnd|...> --out FILE --seed N ...");
            std::process::exit(2);
        }
    }
    tw.flush();
    println!("{{\"events\":{},\"panics\":{}}}", tw.events, tw.panics);
}
