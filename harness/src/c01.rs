//! C01 driver: order/multiplicity insensitivity of apply_many, self re-application and
//! two-way full-state exchange, all on real instances through the public API.
use foca::{Member, State};
use rand::{rngs::SmallRng, seq::SliceRandom, Rng, SeedableRng};
use serde_json::json;

use crate::codec::{CodecKind, Mode};
use crate::handler::HandlerCfg;
use crate::id::{Id, Policy};
use crate::node::{member_json, Call, Cfg, Node, NodeCfg, TraceWriter};

pub struct Stats {
    pub groups: u64,
    pub nontrivial: u64,
}

fn mk(idx: usize, id: Id, seed: u64, tw: &mut TraceWriter) -> Node {
    let ncfg = NodeCfg {
        id,
        cfg: Cfg::default(),
        codec: CodecKind::Hand(Mode::Fixed),
        handler: HandlerCfg::default(),
        seed,
        twin: false,
    };
    let mut n = Node::new(idx, ncfg, tw, 0);
    n.peer_check = false;
    n
}

fn state_json(n: &Node) -> serde_json::Value {
    json!(n.foca.iter_membership_state().map(member_json).collect::<Vec<_>>())
}

const STATES: [State; 3] = [State::Alive, State::Suspect, State::Down];

fn universe(addrs: &[u8], gens: &[u16], incs: &[u16]) -> Vec<Member<Id>> {
    let mut v = vec![];
    for &a in addrs {
        for &g in gens {
            for &i in incs {
                for s in STATES {
                    v.push(Member::new(Id::new(a, g), i, s));
                }
            }
        }
    }
    v
}

fn permutations<T: Clone>(xs: &[T], cap: usize, r: &mut SmallRng) -> Vec<Vec<T>> {
    // all permutations when few, otherwise `cap` random ones (plus identity and reverse)
    let n = xs.len();
    let total: usize = (1..=n).product();
    let mut out = vec![];
    if total <= cap {
        let mut idx: Vec<usize> = (0..n).collect();
        // Heap's algorithm
        fn heap(k: usize, idx: &mut Vec<usize>, out: &mut Vec<Vec<usize>>) {
            if k == 1 {
                out.push(idx.clone());
                return;
            }
            heap(k - 1, idx, out);
            for i in 0..k - 1 {
                if k % 2 == 0 {
                    idx.swap(i, k - 1);
                } else {
                    idx.swap(0, k - 1);
                }
                heap(k - 1, idx, out);
            }
        }
        let mut perms = vec![];
        heap(n.max(1), &mut idx, &mut perms);
        for p in perms {
            out.push(p.iter().map(|&i| xs[i].clone()).collect());
        }
    } else {
        out.push(xs.to_vec());
        let mut rev = xs.to_vec();
        rev.reverse();
        out.push(rev);
        for _ in 0..cap {
            let mut p = xs.to_vec();
            p.shuffle(r);
            out.push(p);
        }
    }
    out
}

pub fn run(seed: u64, thorough: bool, tw: &mut TraceWriter) -> Stats {
    let mut r = SmallRng::seed_from_u64(seed);
    let mut st = Stats { groups: 0, nontrivial: 0 };
    let own = Id::with(1, 1, Policy::None);
    let third = [2u8, 3, 4];
    let mut run_no = 0u64;

    // (i) all ordered pairs over one address, boundary incarnations, from several starting rows
    let small = universe(&[2], &[0, 1, 2], &[0, 1, 32767, 32768, 65534, 65535]);
    let nstarts = if thorough { 10 } else { 5 };
    let mut starts: Vec<Option<Member<Id>>> = vec![None];
    let mut pool = small.clone();
    pool.shuffle(&mut r);
    for m in pool.into_iter().take(nstarts) {
        starts.push(Some(m));
    }
    for s0 in &starts {
        for u1 in &small {
            for u2 in &small {
                if r.random_range(0..if thorough { 2 } else { 6 }) != 0 {
                    continue;
                }
                tw.env("reset", 0, json!({"run": run_no, "driver": "c01"}));
                run_no += 1;
                let mut finals = vec![];
                for (k, seq) in [[u1, u2], [u2, u1]].iter().enumerate() {
                    let mut n = mk(k, own, r.random(), tw);
                    let mut ups: Vec<Member<Id>> = s0.iter().cloned().collect();
                    ups.extend(seq.iter().map(|m| (*m).clone()));
                    n.call(&Call::ApplyMany(ups, true), tw, 0);
                    finals.push(state_json(&n));
                }
                // idempotence: [s0,u1,u1]
                let mut n = mk(2, own, r.random(), tw);
                let mut ups: Vec<Member<Id>> = s0.iter().cloned().collect();
                ups.push(u1.clone());
                ups.push(u2.clone());
                ups.push(u1.clone());
                ups.push(u2.clone());
                n.call(&Call::ApplyMany(ups, true), tw, 0);
                finals.push(state_json(&n));
                tw.env("group", 0, json!({"prop": "C01", "kind": "perm", "finals": finals, "addrs": [2]}));
                st.groups += 1;
                if u1 != u2 {
                    st.nontrivial += 1;
                }
            }
        }
    }

    // (ii) random multisets in every order, with duplications, incl. own-address generations
    let big = universe(&[2, 3, 4, 1], &[0, 1, 2], &[0, 1, 2, 255, 256, 32767, 32768, 65534, 65535]);
    let nsets = if thorough { 80 } else { 40 };
    for _ in 0..nsets {
        let k = r.random_range(2..=if thorough { 6 } else { 5 });
        // bias: several updates about the same address
        let focus = third[r.random_range(0..3)];
        let mut ms: Vec<Member<Id>> = vec![];
        while ms.len() < k {
            let m = big[r.random_range(0..big.len())].clone();
            if m.id().addr == focus || r.random_range(0..3) == 0 {
                ms.push(m);
            }
        }
        tw.env("reset", 0, json!({"run": run_no, "driver": "c01"}));
        run_no += 1;
        let mut finals = vec![];
        let perms = permutations(&ms, if thorough { 240 } else { 120 }, &mut r);
        for (pi, p) in perms.iter().enumerate() {
            let mut n = mk(pi, own, r.random(), tw);
            let mut seq = p.clone();
            // duplications at random positions in one third of the runs
            if pi % 3 == 0 {
                for _ in 0..r.random_range(1..4) {
                    let d = p[r.random_range(0..p.len())].clone();
                    let at = r.random_range(0..=seq.len());
                    seq.insert(at, d);
                }
            }
            // one call per update in half of the runs, one call for all otherwise
            if pi % 2 == 0 {
                n.call(&Call::ApplyMany(seq, true), tw, 0);
            } else {
                for m in seq {
                    n.call(&Call::ApplyMany(vec![m], r.random_range(0..2) == 0), tw, 0);
                }
            }
            finals.push(state_json(&n));
        }
        tw.env("group", 0, json!({"prop": "C01", "kind": "perm", "finals": finals, "addrs": third}));
        st.groups += 1;
        st.nontrivial += 1;
    }

    // (iii) re-applying the own full state; (iv) two-way exchange
    let nex = if thorough { 800 } else { 200 };
    for _ in 0..nex {
        tw.env("reset", 0, json!({"run": run_no, "driver": "c01"}));
        run_no += 1;
        let ida = Id::with(1, 1, Policy::None);
        let idb = Id::with(5, 0, Policy::None);
        let mut a = mk(0, ida, r.random(), tw);
        let mut b = mk(1, idb, r.random(), tw);
        let with_peers = universe(&[2, 3, 4, 1, 5], &[0, 1, 2], &[0, 1, 2, 32767, 32768, 65535]);
        for n in [&mut a, &mut b] {
            let k = r.random_range(1..7);
            let ups: Vec<Member<Id>> = (0..k).map(|_| with_peers[r.random_range(0..with_peers.len())].clone()).collect();
            n.call(&Call::ApplyMany(ups, true), tw, 0);
        }
        // re-apply own state
        let before = state_json(&a);
        let own_state: Vec<Member<Id>> = a.foca.iter_membership_state().cloned().collect();
        let out = a.call(&Call::ApplyMany(own_state, true), tw, 0);
        let after = state_json(&a);
        tw.env("group", 0, json!({"prop": "C01", "kind": "reapply", "before": before, "after": after, "effects": out.effects.len()}));
        st.groups += 1;
        // exchange: A -> B, then B -> A
        let sa: Vec<Member<Id>> = a.foca.iter_membership_state().cloned().collect();
        b.call(&Call::ApplyMany(sa, r.random_range(0..2) == 0), tw, 0);
        let sb: Vec<Member<Id>> = b.foca.iter_membership_state().cloned().collect();
        a.call(&Call::ApplyMany(sb, r.random_range(0..2) == 0), tw, 0);
        tw.env("group", 0, json!({"prop": "C01", "kind": "exchange", "a": state_json(&a), "b": state_json(&b), "addrs": third}));
        st.groups += 1;
        st.nontrivial += 1;
    }
    tw.env("end", 0, json!({"run": run_no}));
    st
}
