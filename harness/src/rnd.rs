//! Random adversarial single-node driver (the NodeEnv of the specification,
//! executed on the real code): datagrams of every kind from a small identity
//! universe, plausible replies to what the node sends, exactly-once timer
//! delivery in deadline or arbitrary order, every public API call, and
//! (optionally) forged / stale / duplicated timers and malformed bytes.
use std::time::Duration;

use foca::{Header, Member, Message, State, Timer};
use rand::{rngs::SmallRng, Rng, SeedableRng};
use serde_json::json;

use crate::codec::{self, CodecKind, Mode};
use crate::handler::{Accept, HandlerCfg, InvRel, Pred};
use crate::id::{Id, Policy};
use crate::node::{Call, Cfg, Effect, Node, NodeCfg, TraceWriter};

#[derive(Clone, Debug)]
pub struct RndOpts {
    pub seed: u64,
    pub runs: usize,
    pub steps: usize,
    /// forged/stale/duplicate timers allowed
    pub forge: bool,
    /// malformed bytes allowed
    pub junk: bool,
    /// set_config calls that change max_packet_size allowed
    pub resize: bool,
    /// always deliver timers in deadline order
    pub ordered: bool,
    pub twin: bool,
    pub codecs: Vec<CodecKind>,
    /// incarnations near u16::MAX
    pub bigincs: bool,
}

impl Default for RndOpts {
    fn default() -> Self {
        RndOpts {
            seed: 1,
            runs: 10,
            steps: 200,
            forge: false,
            junk: false,
            resize: false,
            ordered: false,
            twin: false,
            codecs: vec![CodecKind::Hand(Mode::Fixed)],
            bigincs: true,
        }
    }
}

struct Pending {
    timer: Timer<Id>,
    due: u64,
    seq: u64,
}

pub struct Env {
    pub rng: SmallRng,
    pub now: u64,
    pub naddr: u8,
    pub ngen: u16,
    pending: Vec<Pending>,
    delivered: Vec<Timer<Id>>,
    replies: Vec<Vec<u8>>,
    tseq: u64,
    opts: RndOpts,
    codec: CodecKind,
    seen_numbers: Vec<u8>,
    /// calls of a targeted multi-step scenario still to be made (consumed before anything random)
    queue: std::collections::VecDeque<Call>,
}

fn pick<T: Copy>(r: &mut SmallRng, xs: &[T]) -> T {
    xs[r.random_range(0..xs.len())]
}

impl Env {
    fn rand_inc(&mut self) -> u16 {
        if self.opts.bigincs && self.rng.random_range(0..10) == 0 {
            // the top of the range and the sign-bit / byte boundaries in the middle of it
            pick(&mut self.rng, &[65533u16, 65534, 65535, 65535, 32767, 32768, 255, 256])
        } else {
            pick(&mut self.rng, &[0u16, 0, 0, 1, 1, 2, 3])
        }
    }
    fn peer(&mut self) -> Id {
        let a = self.rng.random_range(2..=self.naddr);
        let g = self.rng.random_range(0..self.ngen);
        Id::new(a, g)
    }
    /// any identity: mostly peers, sometimes an identity of the node's own address
    fn any_id(&mut self, own: Id) -> Id {
        match self.rng.random_range(0..10) {
            0 => own,
            1 => Id::new(own.addr, self.rng.random_range(0..self.ngen + 1)),
            _ => self.peer(),
        }
    }
    fn rand_state(&mut self) -> State {
        pick(&mut self.rng, &[State::Alive, State::Alive, State::Suspect, State::Down])
    }
    fn rand_member(&mut self, own: Id) -> Member<Id> {
        let id = self.any_id(own);
        let inc = self.rand_inc();
        let st = self.rand_state();
        Member::new(id, inc, st)
    }
    fn rand_item(&mut self) -> Vec<u8> {
        let key = pick(&mut self.rng, &[1u8, 2, 3, 3, 255]);
        let key = if key == 255 && self.rng.random_range(0..4) != 0 { 1 } else { key };
        let ver = self.rng.random_range(0..4u8);
        let size = pick(&mut self.rng, &[1usize, 2, 3, 5, 9]);
        let mut it = codec::make_item(key, ver, size);
        if size > 2 && self.rng.random_range(0..30) == 0 {
            it[2] ^= 0x55; // damaged filler
        }
        it
    }

    fn rand_message(&mut self, node: &Node) -> Message<Id> {
        let own = node.id();
        let cur = node.foca.verif_snapshot().probe_number;
        let n = match self.rng.random_range(0..8) {
            0 => cur.wrapping_sub(1),
            1 => cur.wrapping_add(1),
            2 => self.rng.random(),
            _ => cur,
        };
        let other = if self.rng.random_range(0..8) == 0 { own } else { self.any_id(own) };
        match self.rng.random_range(0..14) {
            0 | 1 => Message::Ping(n),
            2 | 3 => Message::Ack(n),
            4 => Message::PingReq { target: other, probe_number: n },
            5 => Message::IndirectPing { origin: other, probe_number: n },
            6 => Message::IndirectAck { target: other, probe_number: n },
            7 | 8 => Message::ForwardedAck { origin: other, probe_number: n },
            9 => Message::Announce,
            10 => Message::Feed,
            11 => Message::Gossip,
            12 => Message::Broadcast,
            _ => Message::TurnUndead,
        }
    }

    fn craft(&mut self, node: &Node) -> Vec<u8> {
        let own = node.id();
        let snap = node.foca.verif_snapshot();
        let mut message = self.rand_message(node);
        // bias towards senders that make sense: the probe target / asked helpers
        let src = match self.rng.random_range(0..12) {
            0 => own,
            1 => Id::new(own.addr, self.rng.random_range(0..self.ngen + 1)),
            2 | 3 | 4 if snap.probe_direct.is_some() => {
                let t = *snap.probe_direct.as_ref().unwrap().id();
                if self.rng.random_range(0..2) == 0 {
                    message = Message::Ack(snap.probe_number);
                }
                t
            }
            5 | 6 if !snap.probe_indirect.is_empty() => {
                let h = snap.probe_indirect[self.rng.random_range(0..snap.probe_indirect.len())];
                if self.rng.random_range(0..2) == 0 {
                    message = Message::ForwardedAck {
                        origin: *snap.probe_direct.as_ref().map(|m| m.id()).unwrap_or(&h),
                        probe_number: snap.probe_number,
                    };
                }
                h
            }
            _ => self.peer(),
        };
        let dst = match self.rng.random_range(0..12) {
            0 => self.peer(),
            1 => Id::new(own.addr, self.rng.random_range(0..self.ngen + 1)),
            _ => own,
        };
        let inc = self.rand_inc();
        let header = Header { src, src_incarnation: inc, dst, message: message.clone() };
        let carries_members = !matches!(message, Message::Announce | Message::Broadcast | Message::TurnUndead)
            || (self.opts.junk && self.rng.random_range(0..10) == 0);
        let nupd = if carries_members { pick(&mut self.rng, &[0usize, 0, 1, 1, 2, 3]) } else { 0 };
        let mut members = vec![];
        for _ in 0..nupd {
            members.push(self.rand_member(own));
        }
        let nitems = if matches!(message, Message::Announce | Message::TurnUndead) && !self.opts.junk {
            0
        } else {
            pick(&mut self.rng, &[0usize, 0, 0, 1, 2])
        };
        let mut items = vec![];
        for _ in 0..nitems {
            items.push(self.rand_item());
        }
        let tally = if carries_members && (nupd > 0 || !items.is_empty() || self.rng.random_range(0..2) == 0) {
            Some(nupd as u16)
        } else if message == Message::Broadcast {
            None
        } else if !items.is_empty() {
            Some(0)
        } else {
            None
        };
        let mut bytes = codec::build(self.codec, &header, tally, &members, &items)
            .unwrap_or_else(|| vec![0xff; 3]);
        if self.opts.junk {
            match self.rng.random_range(0..12) {
                0 => {
                    // truncate
                    let k = self.rng.random_range(0..=bytes.len());
                    bytes.truncate(k);
                }
                1 => {
                    // trailing garbage
                    let k = self.rng.random_range(1..4);
                    for _ in 0..k {
                        bytes.push(self.rng.random());
                    }
                }
                2 => {
                    // flip a byte
                    if !bytes.is_empty() {
                        let i = self.rng.random_range(0..bytes.len());
                        bytes[i] ^= 1 << self.rng.random_range(0..8);
                    }
                }
                3 => {
                    // pure noise, up to twice the packet size
                    let max = (snap.config.max_packet_size.get() * 2).min(4096);
                    let k = self.rng.random_range(0..=max);
                    bytes = (0..k).map(|_| self.rng.random()).collect();
                }
                4 => {
                    // lying tally
                    if let Some(b) = codec::build(self.codec, &header, Some(self.rng.random_range(0..6)), &members, &items) {
                        bytes = b;
                    }
                }
                _ => {}
            }
        }
        bytes
    }

    fn absorb(&mut self, node: &Node, effects: &[Effect]) {
        for e in effects {
            match e {
                Effect::Timer { timer, after } => {
                    self.tseq += 1;
                    self.pending.push(Pending {
                        timer: timer.clone(),
                        due: self.now + after.as_millis() as u64,
                        seq: self.tseq,
                    });
                }
                Effect::Send { dst, data } => {
                    // plausible reply from the addressed peer
                    if dst.addr == node.id().addr {
                        continue;
                    }
                    let p = codec::parse(self.codec, data);
                    let Some(h) = p.header else { continue };
                    if let Message::Ping(n) = h.message {
                        self.seen_numbers.push(n);
                    }
                    if self.rng.random_range(0..10) < 3 {
                        continue; // peer silent
                    }
                    let own = node.id();
                    let reply = match h.message {
                        Message::Ping(n) => Some(Message::Ack(n)),
                        Message::PingReq { target, probe_number } => {
                            if self.rng.random_range(0..3) == 0 {
                                None
                            } else {
                                Some(Message::ForwardedAck { origin: target, probe_number })
                            }
                        }
                        Message::IndirectPing { origin, probe_number } => {
                            Some(Message::IndirectAck { target: origin, probe_number })
                        }
                        Message::Announce => Some(Message::Feed),
                        _ => None,
                    };
                    if let Some(message) = reply {
                        let inc = if self.rng.random_range(0..4) == 0 { self.rand_inc() } else { 0 };
                        let header = Header { src: *dst, src_incarnation: inc, dst: own, message: message.clone() };
                        let mut members = vec![];
                        let n = if message == Message::Feed { self.rng.random_range(0..4) } else { pick(&mut self.rng, &[0usize, 0, 1]) };
                        for _ in 0..n {
                            let mut m = self.rand_member(own);
                            if message == Message::Feed {
                                m = Member::new(*m.id(), m.incarnation(), State::Alive);
                            }
                            members.push(m);
                        }
                        if let Some(b) = codec::build(self.codec, &header, Some(members.len() as u16), &members, &[]) {
                            self.replies.push(b);
                        }
                    }
                }
                Effect::Notify(_) => {}
            }
        }
    }

    fn forged_timer(&mut self, node: &Node) -> Timer<Id> {
        let own = node.id();
        let snap = node.foca.verif_snapshot();
        let tok = match self.rng.random_range(0..4) {
            0 => snap.timer_token.wrapping_sub(1),
            1 => self.rng.random(),
            _ => snap.timer_token,
        };
        let id = self.any_id(own);
        match self.rng.random_range(0..8) {
            0 => Timer::ProbeRandomMember(tok),
            1 => Timer::SendIndirectProbe { probed_id: id, token: tok },
            2 | 3 => Timer::ChangeSuspectToDown { member_id: id, incarnation: self.rand_inc(), token: tok },
            4 => Timer::PeriodicAnnounce(tok),
            5 => Timer::PeriodicAnnounceDown(tok),
            6 => Timer::PeriodicGossip(tok),
            _ => Timer::RemoveDown(id),
        }
    }
}

fn rand_cfg(r: &mut SmallRng, opts: &RndOpts) -> Cfg {
    let mut c = Cfg::default();
    c.fanout = pick(r, &[1usize, 2, 3]);
    c.maxtx = pick(r, &[1u8, 2, 3, 10, 255]);
    c.maxpkt = pick(r, &[1400usize, 1400, 64, 40, 30, 24, 18, 12]);
    c.notifydown = r.random_range(0..2) == 0;
    c.s2d = 3000;
    c.rda = pick(r, &[4000u64, 20_000]);
    if r.random_range(0..2) == 0 {
        c.pa = Some((pick(r, &[1000u64, 4000]), pick(r, &[1usize, 2])));
    }
    if r.random_range(0..2) == 0 {
        c.pad = Some((pick(r, &[1200u64, 5000]), pick(r, &[1usize, 2])));
    }
    if r.random_range(0..2) == 0 {
        c.pg = Some((pick(r, &[300u64, 2000]), pick(r, &[1usize, 3])));
    }
    let _ = opts;
    c
}

pub fn run(opts: &RndOpts, tw: &mut TraceWriter) {
    let mut master = SmallRng::seed_from_u64(opts.seed);
    for run in 0..opts.runs {
        let rseed: u64 = master.random();
        let mut r = SmallRng::seed_from_u64(rseed);
        let codec = opts.codecs[run % opts.codecs.len()];
        let cfg = rand_cfg(&mut r, opts);
        let pol = pick(&mut r, &[Policy::None, Policy::Next, Policy::Next, Policy::Same, Policy::Losing, Policy::Cycle]);
        let handler = HandlerCfg {
            rel: pick(&mut r, &[InvRel::SameKey, InvRel::SameKey, InvRel::NewerOrEqual, InvRel::Never]),
            pred: pick(&mut r, &[Pred::All, Pred::All, Pred::EvenAddr, Pred::Nobody]),
            accept: pick(&mut r, &[Accept::Newer, Accept::Newer, Accept::Everything, Accept::Nothing, Accept::Disabled]),
        };
        let naddr = pick(&mut r, &[3u8, 4, 6]);
        let ngen = pick(&mut r, &[1u16, 2, 3]);
        let own = Id::with(1, r.random_range(0..2), pol);
        tw.env("reset", 0, json!({"run": run, "driver": "rnd", "rseed": rseed % 1_000_000_007,
            "forge": opts.forge, "junk": opts.junk, "ordered": opts.ordered, "dbg": cfg!(debug_assertions)}));
        let ncfg = NodeCfg { id: own, cfg, codec, handler, seed: r.random(), twin: opts.twin };
        let mut node = Node::new(0, ncfg, tw, 0);
        let mut env = Env {
            rng: r,
            now: 0,
            naddr,
            ngen,
            pending: vec![],
            delivered: vec![],
            replies: vec![],
            tseq: 0,
            opts: opts.clone(),
            codec,
            seen_numbers: vec![],
            queue: Default::default(),
        };
        for _step in 0..opts.steps {
            if node.poisoned {
                break;
            }
            env.now += env.rng.random_range(0..400);
            let choice = env.rng.random_range(0..100);
            // targeted scenario (one step in forty starts one): scratch buffers and multi-call windows that a
            // purely random sequence rarely lines up.
            //  "feed pair": many members become active, a join request is answered (a Feed that may be truncated),
            //  most of them are declared down (or the packet grows), a second join request is answered at once
            if env.queue.is_empty() && env.rng.random_range(0..40) == 0 {
                let own = node.id();
                let peers: Vec<Id> = (1..=env.naddr).filter(|a| *a != own.addr).map(|a| Id::new(a, 0)).collect();
                if peers.len() >= 2 {
                    let announce = |env: &mut Env, from: Id, to: Id| {
                        let h = Header { src: from, src_incarnation: 0, dst: to, message: Message::Announce };
                        codec::build(env.codec, &h, None, &[], &[]).unwrap_or_default()
                    };
                    let ups: Vec<Member<Id>> = peers.iter().map(|p| Member::new(*p, 1, State::Alive)).collect();
                    env.queue.push_back(Call::ApplyMany(ups, env.rng.random_range(0..2) == 0));
                    let a = announce(&mut env, peers[0], own);
                    env.queue.push_back(Call::Data(a));
                    if opts.resize && env.rng.random_range(0..2) == 0 {
                        let mut c = node.foca.verif_snapshot().config;
                        c.max_packet_size = std::num::NonZeroUsize::new(1400).unwrap();
                        env.queue.push_back(Call::SetConfig(c));
                    } else {
                        let keep = env.rng.random_range(1..=2usize);
                        let downs: Vec<Member<Id>> = peers.iter().skip(keep).map(|p| Member::new(*p, 1, State::Down)).collect();
                        env.queue.push_back(Call::ApplyMany(downs, true));
                    }
                    let b = announce(&mut env, peers[1], own);
                    env.queue.push_back(Call::Data(b));
                }
            }
            let call: Call = if let Some(c) = env.queue.pop_front() {
                c
            } else if choice < 30 && !env.pending.is_empty() {
                // deliver a pending timer (exactly once)
                let i = if opts.ordered || env.rng.random_range(0..3) != 0 {
                    // deadline order, ties by Timer::cmp then issue order
                    let mut best = 0;
                    for (j, p) in env.pending.iter().enumerate() {
                        let b = &env.pending[best];
                        if (p.due, &p.timer, p.seq) < (b.due, &b.timer, b.seq) {
                            best = j;
                        }
                    }
                    best
                } else {
                    env.rng.random_range(0..env.pending.len())
                };
                let p = env.pending.swap_remove(i);
                env.now = env.now.max(p.due);
                env.delivered.push(p.timer.clone());
                Call::Timer(p.timer)
            } else if choice < 45 && !env.replies.is_empty() {
                let i = env.rng.random_range(0..env.replies.len());
                Call::Data(env.replies.swap_remove(i))
            } else if choice < 75 {
                Call::Data(env.craft(&node))
            } else if choice < 80 {
                let n = env.rng.random_range(0..4);
                let own = node.id();
                let mut ms: Vec<Member<Id>> = (0..n).map(|_| env.rand_member(own)).collect();
                // targeted self-updates: suspicions below / at / above the own incarnation, MAX-1, MAX, Down
                if env.rng.random_range(0..5) == 0 {
                    let cur = node.foca.verif_snapshot().incarnation;
                    let inc = pick(&mut env.rng, &[cur, cur.saturating_add(1), cur.saturating_sub(1), 65534, 65535, 0]);
                    let st = pick(&mut env.rng, &[State::Suspect, State::Suspect, State::Suspect, State::Down, State::Alive]);
                    let at = env.rng.random_range(0..=ms.len());
                    ms.insert(at, Member::new(own, inc, st));
                }
                Call::ApplyMany(ms, env.rng.random_range(0..3) != 0)
            } else if choice < 83 {
                Call::Announce(env.peer())
            } else if choice < 85 {
                Call::Gossip
            } else if choice < 87 {
                Call::Broadcast
            } else if choice < 92 {
                match env.rng.random_range(0..6) {
                    0 => Call::AddBcast(vec![]),
                    1 => Call::AddBcast(vec![7; node.foca.verif_snapshot().config.max_packet_size.get() + 1]),
                    _ => Call::AddBcast(env.rand_item()),
                }
            } else if choice < 93 {
                Call::Leave
            } else if choice < 95 {
                let own = node.id();
                // new generation of the own address (never an address of a known member)
                let g = env.rng.random_range(0..env.ngen + 2);
                // one time in three: move to another address, one that no active member has
                // (adopting the address of a live member is a user error the properties do not cover)
                let free: Vec<u8> = (1..=env.naddr)
                    .filter(|a| *a != own.addr)
                    .filter(|a| !node.foca.iter_members().any(|m| m.id().addr == *a))
                    .collect();
                if !free.is_empty() && env.rng.random_range(0..3) == 0 {
                    let a = free[env.rng.random_range(0..free.len())];
                    Call::ChangeId(Id::with(a, g, own.pol))
                } else {
                    Call::ChangeId(Id::with(own.addr, g, own.pol))
                }
            } else if choice < 96 {
                Call::Reuse
            } else if choice < 98 {
                let mut c = node.foca.verif_snapshot().config;
                match env.rng.random_range(0..7) {
                    0 => c.periodic_announce = None,
                    1 => c.periodic_gossip = None,
                    2 => c.periodic_announce_to_down_members = None,
                    3 => c.max_transmissions = std::num::NonZeroU8::new(pick(&mut env.rng, &[1u8, 2, 5])).unwrap(),
                    4 => {
                        // try to enable something / change timing: must be refused
                        match env.rng.random_range(0..3) {
                            0 => c.probe_period = Duration::from_millis(1234),
                            1 => c.probe_rtt = Duration::from_millis(77),
                            _ => {
                                let pp = foca::PeriodicParams {
                                    frequency: Duration::from_millis(900),
                                    num_members: std::num::NonZeroUsize::new(1).unwrap(),
                                };
                                match env.rng.random_range(0..3) {
                                    0 => c.periodic_announce = Some(pp),
                                    1 => c.periodic_gossip = Some(pp),
                                    _ => c.periodic_announce_to_down_members = Some(pp),
                                }
                            }
                        }
                        // a refused configuration may differ in the packet size as well: nothing of it may stick
                        if opts.resize && env.rng.random_range(0..2) == 0 {
                            c.max_packet_size = std::num::NonZeroUsize::new(pick(&mut env.rng, &[8usize, 20, 48, 1400])).unwrap();
                        }
                    }
                    5 => c.notify_down_members = !c.notify_down_members,
                    _ => {
                        if opts.resize {
                            c.max_packet_size = std::num::NonZeroUsize::new(pick(&mut env.rng, &[8usize, 20, 48, 1400])).unwrap();
                        } else {
                            c.num_indirect_probes = std::num::NonZeroUsize::new(pick(&mut env.rng, &[1usize, 2, 3])).unwrap();
                        }
                    }
                }
                Call::SetConfig(c)
            } else if opts.forge {
                if !env.delivered.is_empty() && env.rng.random_range(0..2) == 0 {
                    // duplicate of an already delivered timer
                    let i = env.rng.random_range(0..env.delivered.len());
                    Call::Timer(env.delivered[i].clone())
                } else {
                    Call::Timer(env.forged_timer(&node))
                }
            } else {
                Call::Data(env.craft(&node))
            };
            let forged = matches!(&call, Call::Timer(_)) && choice >= 98;
            let tag = if forged { json!({"forged": true}) } else { serde_json::Value::Null };
            let out = node.call_tagged(&call, tw, env.now, tag);
            env.absorb(&node, &out.effects);
        }
        tw.env("end", env.now, json!({"run": run}));
    }
}
