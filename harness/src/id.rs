//! Identity used by every driver: an address plus a generation.
//! Equality ignores the renew policy (like the crate's own test `ID`), so that
//! `win_addr_conflict` is a strict total order among identities of one address.
use serde::{Deserialize, Serialize};

#[derive(Clone, Copy, Debug, Default, PartialEq, Eq, Hash)]
pub enum Policy {
    /// `renew()` yields `None`
    #[default]
    None,
    /// `renew()` yields the next generation (wins)
    Next,
    /// `renew()` yields the very same identity
    Same,
    /// `renew()` yields a different identity that loses the conflict
    Losing,
    /// `renew()` yields generation (g + 1) mod 4: wins until it wraps around, then loses
    Cycle,
}

impl Policy {
    pub fn name(self) -> &'static str {
        match self {
            Policy::None => "none",
            Policy::Next => "next",
            Policy::Same => "same",
            Policy::Losing => "losing",
            Policy::Cycle => "cycle",
        }
    }
    pub fn parse(s: &str) -> Policy {
        match s {
            "next" => Policy::Next,
            "same" => Policy::Same,
            "losing" => Policy::Losing,
            "cycle" => Policy::Cycle,
            _ => Policy::None,
        }
    }
}

#[derive(Clone, Copy, Debug, Serialize, Deserialize)]
pub struct Id {
    pub addr: u8,
    pub gen: u16,
    #[serde(skip)]
    pub pol: Policy,
}

impl PartialEq for Id {
    fn eq(&self, o: &Self) -> bool {
        self.addr == o.addr && self.gen == o.gen
    }
}
impl Eq for Id {}
impl std::hash::Hash for Id {
    fn hash<H: std::hash::Hasher>(&self, h: &mut H) {
        self.addr.hash(h);
        self.gen.hash(h);
    }
}
impl PartialOrd for Id {
    fn partial_cmp(&self, o: &Self) -> Option<std::cmp::Ordering> {
        Some(self.cmp(o))
    }
}
impl Ord for Id {
    fn cmp(&self, o: &Self) -> std::cmp::Ordering {
        (self.addr, self.gen).cmp(&(o.addr, o.gen))
    }
}

impl Id {
    pub const fn new(addr: u8, gen: u16) -> Self {
        Id { addr, gen, pol: Policy::None }
    }
    pub const fn with(addr: u8, gen: u16, pol: Policy) -> Self {
        Id { addr, gen, pol }
    }
}

impl foca::Identity for Id {
    type Addr = u8;

    fn renew(&self) -> Option<Self> {
        match self.pol {
            Policy::None => None,
            Policy::Next => self.gen.checked_add(1).map(|g| Id { gen: g, ..*self }),
            Policy::Same => Some(*self),
            Policy::Losing => Some(Id { gen: self.gen.saturating_sub(1), ..*self }),
            Policy::Cycle => Some(Id { gen: (self.gen + 1) % 4, ..*self }),
        }
    }

    fn addr(&self) -> u8 {
        self.addr
    }

    fn win_addr_conflict(&self, adversary: &Self) -> bool {
        self.gen > adversary.gen
    }
}
