//! Cluster-level drivers on the simulator: C02 (fault-free formation), C03 (crash / leave at every
//! event index), C04 (every single datagram of a window lost), C05 (partition / heal),
//! C18 (reply cascades with timers held).
use foca::{Header, Member, Message, State};
use rand::{rngs::SmallRng, seq::SliceRandom, Rng, SeedableRng};
use serde_json::json;

use crate::codec::{self, CodecKind, Mode};
use crate::handler::HandlerCfg;
use crate::id::{Id, Policy};
use crate::node::{Call, Cfg, TraceWriter};
use crate::sim::{Sim, SimCfg, Status};

#[derive(Default)]
pub struct Cov {
    pub runs: u64,
    pub informative: u64,
    pub kinds: std::collections::BTreeMap<String, u64>,
}

impl Cov {
    pub fn json(&self, tw: &TraceWriter) -> String {
        let mut v = json!({"events": tw.events, "panics": tw.panics, "cov_runs": self.runs, "cov_informative": self.informative});
        for (k, n) in &self.kinds {
            v[format!("cov_{k}")] = json!(n);
        }
        v.to_string()
    }
}

fn pick<T: Copy>(r: &mut SmallRng, xs: &[T]) -> T {
    xs[r.random_range(0..xs.len())]
}

fn base_cfg() -> Cfg {
    Cfg { period: 1500, rtt: 500, fanout: 3, maxtx: 10, s2d: 3000, rda: 3_600_000, maxpkt: 1400, notifydown: false, pa: None, pad: None, pg: None }
}

fn everyone_lists_everyone(sim: &Sim) -> bool {
    let up: Vec<usize> = (0..sim.scfg.n).filter(|&i| sim.status[i] == Status::Up).collect();
    up.iter().all(|&x| {
        let n = sim.nodes[x].as_ref().unwrap();
        let act: Vec<Id> = n.foca.iter_members().map(|m| *m.id()).collect();
        up.iter().all(|&y| y == x || act.contains(&sim.id_of(y))) && act.len() == up.len() - 1
    })
}

/// brings up a cluster of n nodes: node 0 first, the others announce to a random earlier node
fn form(sim: &mut Sim, r: &mut SmallRng, spread: u64) {
    let n = sim.scfg.n;
    sim.spawn(0, 0);
    let mut t = 0;
    for i in 1..n {
        t += r.random_range(0..=spread);
        sim.run_until(t);
        sim.spawn(i, 0);
        let via = r.random_range(0..i);
        sim.join(i, via);
    }
}

// ------------------------------------------------------------------------------------------ C02

pub fn c02(seed: u64, runs: usize, nmax: usize, tw: &mut TraceWriter) -> Cov {
    let mut master = SmallRng::seed_from_u64(seed);
    let mut cov = Cov::default();
    for run in 0..runs {
        let mut r = SmallRng::seed_from_u64(master.random());
        // every fifth run: the regime in which a joiner depends on its Feed alone - 8 to 10 members joining one
        // at a time, (n+2) periods apart, a packet that exactly feeds the whole cluster, one transmission per
        // update and no periodic announce / gossip
        let feed_regime = run % 5 == 4;
        let n = if feed_regime { pick(&mut r, &[8usize, 9, 10]) } else { r.random_range(2..=nmax) };
        // one run in twenty: a small cluster observed for 300 probe periods, so that every instance's probe number
        // (a u8 in the code) wraps around at least once while the zero-false-suspicion clauses are being judged
        let long = run % 20 == 13;
        let n = if long { 2 + (run / 20) % 2 } else { n };
        let mut cfg = base_cfg();
        cfg.fanout = r.random_range(1..=4);
        cfg.maxtx = if feed_regime { 1 } else { r.random_range(1..=10) };
        // probe_rtt < probe_period, sometimes only just
        match r.random_range(0..4) {
            0 => { cfg.period = 500; cfg.rtt = 400; }
            1 => { cfg.period = 700; cfg.rtt = 500; }
            _ => {}
        }
        let p = cfg.period;
        if !feed_regime && r.random_range(0..2) == 0 {
            cfg.pg = Some((pick(&mut r, &[p / 3, p, 2 * p]), r.random_range(1..=3)));
        }
        if !feed_regime && r.random_range(0..2) == 0 {
            cfg.pa = Some((pick(&mut r, &[p / 2, p, 3 * p]), r.random_range(1..=2)));
        }
        // packet sizes: just large enough to feed the whole cluster ... 1400; sometimes too small
        // (then only the zero-false-suspicion clauses are required)
        // (fixed codec: a Feed header takes 9 bytes, the count 2, a member 6; it lists everyone but sender and receiver)
        let feed_tight = 9 + 2 + 6 * n.saturating_sub(2);
        let feed_all = 13 + 2 + 6 * n;
        let small = !feed_regime && r.random_range(0..5) == 0;
        cfg.maxpkt = if feed_regime { feed_tight } else if small { pick(&mut r, &[24usize, 30, 36]) }
                     else { pick(&mut r, &[feed_tight, feed_tight + 1, feed_all, feed_all + 7, 200, 1400]) };
        let nodisc = cfg.maxpkt < feed_tight;
        let lat_hi = cfg.rtt / 4 - 1;
        let scfg = SimCfg { n, cfg: cfg.clone(), codec: CodecKind::Hand(Mode::Fixed), handler: HandlerCfg::default(), pol: Policy::None,
                            seed: r.random(), lat: (0, lat_hi), late: 0 };
        // does one membership update fit on a Ping / Ack (fixed codec: 10-byte header, count 2, member 6)? At the tightest
        // packet sizes a Feed still lists the whole cluster but nothing can be piggybacked on the probe traffic
        let piggy = cfg.maxpkt >= 10 + 2 + 6;
        let mut sim = Sim::new(scfg, run as u64, "c02", json!({"nodisc": nodisc, "piggy": piggy}), tw);
        if feed_regime {
            sim.spawn(0, 0);
            let mut t = 0;
            for i in 1..n {
                t += (n as u64 + 2) * p;
                sim.run_until(t);
                sim.spawn(i, 0);
                let via = if i % 2 == 0 { 0 } else { i - 1 };
                sim.join(i, via);
            }
        } else {
            let spread = pick(&mut r, &[0u64, p / 8, p / 2, 2 * p]);
            form(&mut sim, &mut r, spread);
        }
        let last_join = sim.now;
        let horizon = last_join + (if long { 300 } else { 4 * n as u64 + 10 }) * p + p;
        sim.run_until(horizon);
        if everyone_lists_everyone(&sim) {
            cov.informative += 1;
        }
        sim.end(json!({}));
        cov.runs += 1;
    }
    cov
}

// ------------------------------------------------------------------------------------------ C03

/// a deterministic formed cluster: returns the simulator right after everyone lists everyone
fn formed<'a>(n: usize, cfg: &Cfg, pol: Policy, seed: u64, lat: (u64, u64), run: u64, driver: &str, extra: serde_json::Value,
              tw: &'a mut TraceWriter) -> Option<Sim<'a>> {
    formed_hist(n, cfg, pol, seed, lat, run, driver, extra, tw, false)
}

/// `near_max`: before the cluster counts as formed one member refutes a suspicion raised at incarnation MAX-2, so
/// that it lives at MAX-1 - one refutation away from the point where it "cannot refute any more"
#[allow(clippy::too_many_arguments)]
fn formed_hist<'a>(n: usize, cfg: &Cfg, pol: Policy, seed: u64, lat: (u64, u64), run: u64, driver: &str, extra: serde_json::Value,
                   tw: &'a mut TraceWriter, near_max: bool) -> Option<Sim<'a>> {
    let scfg = SimCfg { n, cfg: cfg.clone(), codec: CodecKind::Hand(Mode::Fixed), handler: HandlerCfg::default(), pol, seed, lat, late: 0 };
    let mut r = SmallRng::seed_from_u64(seed ^ 0x5eed);
    let mut sim = Sim::new(scfg, run, driver, extra, tw);
    form(&mut sim, &mut r, cfg.period / 2);
    let limit = sim.now + (4 * n as u64 + 10) * cfg.period;
    while sim.now < limit && !everyone_lists_everyone(&sim) {
        if !sim.step() {
            break;
        }
    }
    if !everyone_lists_everyone(&sim) {
        return None;
    }
    // let the join gossip settle for a couple of periods
    let t = sim.now + 2 * cfg.period;
    sim.run_until(t);
    if near_max {
        let v = (seed % n as u64) as usize;
        let a = (v + 1) % n;
        let vid = sim.id_of(v);
        sim.call(a, Call::ApplyMany(vec![Member::new(vid, u16::MAX - 2, State::Suspect)], true));
        let t = sim.now + (n as u64 + 3) * cfg.period;
        sim.run_until(t);
        let at_boundary = sim.nodes[v].as_ref().map_or(false, |nd| nd.foca.verif_snapshot().incarnation == u16::MAX - 1);
        if !at_boundary || !everyone_lists_everyone(&sim) {
            return None;
        }
    }
    let now = sim.now;
    sim.tw.env("formed", now, json!({}));
    Some(sim)
}

fn subsets(n: usize, r: &mut SmallRng, cap: usize) -> Vec<Vec<usize>> {
    let mut all = vec![];
    for mask in 1u32..((1u32 << n) - 1) {
        all.push((0..n).filter(|i| mask & (1 << i) != 0).collect::<Vec<_>>());
    }
    if all.len() > cap {
        all.shuffle(r);
        all.truncate(cap);
    }
    all
}

pub fn c03(seed: u64, thorough: bool, maxruns: u64, tw: &mut TraceWriter) -> Cov {
    let mut master = SmallRng::seed_from_u64(seed);
    let mut cov = Cov::default();
    let sizes: &[usize] = if thorough { &[2, 3, 4, 5, 6] } else { &[2, 3, 4, 5] };
    let mut run = 0u64;
    for &n in sizes {
        let mut cfg = base_cfg();
        cfg.fanout = pick(&mut master, &[1usize, 2, 3]);
        cfg.maxtx = pick(&mut master, &[3u8, 6, 10]);
        if master.random_range(0..2) == 0 {
            cfg.pg = Some((cfg.period, 2));
        }
        let cseed: u64 = master.random();
        let lat = (0, cfg.rtt / 4 - 1);
        // reference window: count the events of one full rotation after formation
        let window = {
            let mut null = TraceWriter::null();
            let Some(mut sim) = formed(n, &cfg, Policy::None, cseed, lat, 0, "c03", json!({}), &mut null) else { continue };
            let s0 = sim.steps;
            let t = sim.now + (n as u64) * cfg.period;
            sim.run_until(t);
            (sim.steps - s0) as usize
        };
        // ... and the formation itself: leave / crash while the cluster is still forming (n <= 4)
        if n <= 4 {
            let total = {
                let mut null = TraceWriter::null();
                let scfg = SimCfg { n, cfg: cfg.clone(), codec: CodecKind::Hand(Mode::Fixed), handler: HandlerCfg::default(), pol: Policy::None, seed: cseed, lat, late: 0 };
                let mut r = SmallRng::seed_from_u64(cseed ^ 0x5eed);
                let mut sim = Sim::new(scfg, 0, "c03", json!({}), &mut null);
                form(&mut sim, &mut r, cfg.period / 2);
                let t = sim.now + 2 * cfg.period;
                sim.run_until(t);
                sim.steps as usize
            };
            let estride = if thorough { 1 } else { 2 };
            for k in (0..total).step_by(estride) {
                for leave in [false, true] {
                    if cov.runs >= maxruns {
                        return cov;
                    }
                    let scfg = SimCfg { n, cfg: cfg.clone(), codec: CodecKind::Hand(Mode::Fixed), handler: HandlerCfg::default(), pol: Policy::None, seed: cseed, lat, late: 0 };
                    let mut r = SmallRng::seed_from_u64(cseed ^ 0x5eed);
                    let mut sim = Sim::new(scfg, run, "c03", json!({"fault_at": k, "leave": leave, "early": true}), tw);
                    run += 1;
                    // formation interleaved with the step budget: joins happen at their instants
                    sim.spawn(0, 0);
                    let mut t = 0;
                    let mut joined = 1;
                    let mut fired = false;
                    let mut steps_left = k;
                    let victim = n - 1; // the last joiner: its join races with its own departure
                    loop {
                        if joined < n {
                            t += r.random_range(0..=cfg.period / 2);
                            // process events up to the next join instant, counting steps
                            while let Some(d) = sim.next_due() {
                                if d > t { break; }
                                if steps_left == 0 && !fired && joined > victim { break; }
                                sim.step();
                                if steps_left > 0 { steps_left -= 1; }
                            }
                            sim.now = sim.now.max(t);
                            sim.spawn(joined, 0);
                            let via = r.random_range(0..joined);
                            sim.join(joined, via);
                            joined += 1;
                            continue;
                        }
                        // all joined: burn the remaining step budget, then inject the fault
                        while steps_left > 0 && sim.step() {
                            steps_left -= 1;
                        }
                        if !fired {
                            if leave { sim.leave(victim); } else { sim.crash(victim); }
                            fired = true;
                        }
                        break;
                    }
                    let deadline = sim.now + (2 * n as u64 + 1) * cfg.period + cfg.s2d;
                    sim.run_until(deadline + cfg.period);
                    sim.end(json!({}));
                    cov.runs += 1;
                    *cov.kinds.entry(if leave { "early_leave".into() } else { "early_crash".into() }).or_insert(0) += 1;
                }
            }
        }
        // thorough: every event index for n <= 3, a three times denser sampling than quick beyond
        let stride = if thorough { if n <= 3 { 1 } else { 2.max(window / 30) } } else { 3.max(window / 12) };
        let subs = subsets(n, &mut master, if thorough { 8 } else { 5 });
        for sub in &subs {
            for k in (0..window).step_by(stride) {
                for leave in [false, true] {
                    if !thorough && master.random_range(0..2) == 0 {
                        continue;
                    }
                    if cov.runs >= maxruns {
                        return cov;
                    }
                    let Some(mut sim) = formed(n, &cfg, Policy::None, cseed, lat, run, "c03", json!({"fault_at": k, "leave": leave}), tw) else { continue };
                    run += 1;
                    for _ in 0..k {
                        sim.step();
                    }
                    for &f in sub {
                        if leave {
                            sim.leave(f);
                        } else {
                            sim.crash(f);
                        }
                    }
                    let deadline = sim.now + (2 * n as u64 + 1) * cfg.period + cfg.s2d;
                    sim.run_until(deadline + cfg.period);
                    sim.end(json!({}));
                    cov.runs += 1;
                    cov.informative += 1;
                    *cov.kinds.entry(if leave { "leave".into() } else { "crash".into() }).or_insert(0) += 1;
                }
            }
        }
    }
    cov
}

// ------------------------------------------------------------------------------------------ C04

pub fn c04(seed: u64, thorough: bool, maxruns: u64, nlist: &[usize], tw: &mut TraceWriter) -> Cov {
    let mut master = SmallRng::seed_from_u64(seed);
    let mut cov = Cov::default();
    let sizes: &[usize] = if !nlist.is_empty() { nlist } else if thorough { &[2, 3, 4, 5, 6, 7] } else { &[2, 3, 4, 5, 6] };
    let mut run = 0u64;
    for &n in sizes {
        // latency regimes: (0) well below rtt/4  (1) round trips between rtt and (period-rtt)/2
        // (2) a slow but healthy network: one-way latency above rtt, so that the direct Ack only arrives during the
        //     indirect stage and a refutation takes more than a probe period to come back; suspect_to_down_after = 4 periods
        // (3) regime 0 with one member living at incarnation MAX-1 (it can refute exactly once more)
        for regime in 0..4 {
            if (regime == 2 && n < 3) || (regime == 3 && n > 4) {
                continue;
            }
            for notify in [false, true] {
                for pol in [Policy::None, Policy::Next] {
                    if !thorough && master.random_range(0..2) == 0 && n > 2 {
                        continue;
                    }
                    let mut cfg = base_cfg();
                    cfg.notifydown = notify;
                    cfg.fanout = pick(&mut master, &[2usize, 3]);
                    if master.random_range(0..2) == 0 {
                        cfg.pg = Some((cfg.period, 2));
                    }
                    let lat = if regime == 0 || regime == 3 {
                        (0, cfg.rtt / 4 - 1)
                    } else if regime == 2 {
                        cfg.s2d = 4 * cfg.period;
                        (cfg.rtt + 20, cfg.rtt + 150)
                    } else {
                        cfg.period = 3000;
                        // indirect probing runs routinely in this regime; with periodic announce on and packets
                        // too small for a whole feed, truncated Feed replies are assembled while probes are in flight
                        if n >= 4 && master.random_range(0..2) == 0 {
                            cfg.pa = Some((cfg.period, 1));
                            cfg.maxpkt = 24;
                        }
                        (cfg.rtt / 2 + 10, (cfg.period - cfg.rtt) / 4 - 10)
                    };
                    let cseed: u64 = master.random();
                    // reference run: datagram indexes of a window covering a full rotation (2n-1 rounds)
                    let (m0, m1) = {
                        let mut null = TraceWriter::null();
                        let Some(mut sim) = formed_hist(n, &cfg, pol, cseed, lat, 0, "c04", json!({}), &mut null, regime == 3) else { continue };
                        let m0 = sim.mid;
                        let t = sim.now + (2 * n as u64) * cfg.period;
                        sim.run_until(t);
                        (m0, sim.mid)
                    };
                    let count = (m1 - m0) as usize;
                    // thorough: every datagram for n <= 3, three times denser than quick beyond
                    let stride = if thorough { if n <= 3 { 1 } else { 1.max(count / 40) } } else { 1.max(count / if n <= 4 { 25 } else { 12 }) };
                    for d in (1..=count).step_by(stride) {
                        if cov.runs >= maxruns {
                            return cov;
                        }
                        let Some(mut sim) = formed_hist(n, &cfg, pol, cseed, lat, run, "c04", json!({"regime": regime, "drop": d}), tw, regime == 3) else { continue };
                        run += 1;
                        sim.drop_mids.insert(m0 + d as u64);
                        let t = sim.now + (2 * n as u64) * cfg.period;
                        sim.run_until(t);
                        let bound = cfg.s2d + (2 * n as u64 + 2) * cfg.period;
                        let t2 = sim.now + bound + cfg.period;
                        sim.run_until(t2);
                        for k in sim.dropped_kinds.clone() {
                            *cov.kinds.entry(format!("drop_{k}")).or_insert(0) += 1;
                            cov.informative += 1;
                        }
                        sim.end(json!({}));
                        cov.runs += 1;
                    }
                }
            }
        }
    }
    cov
}

// ------------------------------------------------------------------------------------------ C05

fn mutual_down(sim: &Sim, groups: &[u8]) -> bool {
    (0..sim.scfg.n).all(|x| {
        let n = sim.nodes[x].as_ref().unwrap();
        (0..sim.scfg.n).all(|y| {
            groups[x] == groups[y]
                || n.foca.iter_membership_state().any(|m| m.id().addr == y as u8 + 1 && m.state() == State::Down)
        })
    })
}

pub fn c05(seed: u64, thorough: bool, maxruns: u64, tw: &mut TraceWriter) -> Cov {
    let mut master = SmallRng::seed_from_u64(seed);
    let mut cov = Cov::default();
    let sizes: &[usize] = if thorough { &[3, 4, 5, 6, 8] } else { &[3, 4, 5] };
    let mut run = 0u64;
    for &n in sizes {
        // every split shape with at least one side of two or more members
        let mut shapes: Vec<Vec<u8>> = vec![];
        for mask in 1u32..(1u32 << (n - 1)) {
            // node n-1 always in group 0 (shapes up to symmetry)
            let g: Vec<u8> = (0..n).map(|i| if i < n - 1 && mask & (1 << i) != 0 { 1 } else { 0 }).collect();
            shapes.push(g);
        }
        if !thorough && shapes.len() > 6 {
            shapes.shuffle(&mut master);
            shapes.truncate(6);
        }
        for groups in shapes {
            let heals = if thorough { 4 } else { 2 };
            for h in 0..heals {
                if cov.runs >= maxruns {
                    return cov;
                }
                let mut cfg = base_cfg();
                cfg.notifydown = true;
                cfg.pad = Some((4000, 2));
                cfg.fanout = pick(&mut master, &[2usize, 3]);
                if master.random_range(0..2) == 0 {
                    cfg.pg = Some((cfg.period, 2));
                }
                let lat = (0, cfg.rtt / 4 - 1);
                let cseed: u64 = master.random();
                let Some(mut sim) = formed(n, &cfg, Policy::Next, cseed, lat, run, "c05", json!({"groups": groups.clone()}), tw) else { continue };
                run += 1;
                // in half of the runs some members have already refuted a suspicion (incarnation > 0)
                if master.random_range(0..2) == 0 {
                    for _ in 0..master.random_range(1..=n) {
                        let v = master.random_range(0..n);
                        let a = (v + 1 + master.random_range(0..n - 1)) % n;
                        let vid = sim.id_of(v);
                        sim.call(a, Call::ApplyMany(vec![Member::new(vid, 0, State::Suspect)], true));
                        let t = sim.now + cfg.period;
                        sim.run_until(t);
                    }
                    let t = sim.now + 2 * cfg.period;
                    sim.run_until(t);
                }
                sim.partition(groups.clone());
                let dur = (2 * n as u64 + 3) * cfg.period + cfg.s2d + cfg.period;
                let t = sim.now + dur;
                sim.run_until(t);
                let md = mutual_down(&sim, &groups);
                // heal instants swept across one announce period
                let t = sim.now + (h as u64) * 4000 / heals as u64 + master.random_range(0..500);
                sim.run_until(t);
                sim.heal();
                let t = sim.now + 8 * 4000 + cfg.period;
                sim.run_until(t);
                sim.end(json!({"mutual_down": md}));
                cov.runs += 1;
                if md {
                    cov.informative += 1;
                }
            }
        }
        // asymmetric: a single live member falsely declared Down by one other
        for victim in 0..n.min(3) {
            let mut cfg = base_cfg();
            cfg.notifydown = true;
            cfg.pad = Some((4000, 2));
            let lat = (0, cfg.rtt / 4 - 1);
            let cseed: u64 = master.random();
            let Some(mut sim) = formed(n, &cfg, Policy::Next, cseed, lat, run, "c05", json!({"asym": victim}), tw) else { continue };
            run += 1;
            let accuser = (victim + 1) % n;
            let vid = sim.id_of(victim);
            sim.call(accuser, Call::ApplyMany(vec![Member::new(vid, 0, State::Down)], true));
            sim.heal(); // marks the instant from which the bound is counted
            let t = sim.now + 8 * 4000 + cfg.period;
            sim.run_until(t);
            sim.end(json!({"mutual_down": true}));
            cov.runs += 1;
            cov.informative += 1;
            *cov.kinds.entry("asym".into()).or_insert(0) += 1;
        }
        // a member falsely declared Down renews, and is then cut off alone while the forget-timer of its PREVIOUS
        // identity is still pending: that timer fires in the middle of the partition, after the renewed identity
        // has been declared Down in its turn (two Downs of one address within remove_down_after)
        for victim in 0..n.min(2) {
            let mut cfg = base_cfg();
            cfg.notifydown = true;
            cfg.pad = Some((4000, 2));
            let dur = (2 * n as u64 + 3) * cfg.period + cfg.s2d + cfg.period;
            cfg.rda = 3 * cfg.period + dur + 4000;
            let lat = (0, cfg.rtt / 4 - 1);
            let cseed: u64 = master.random();
            let groups: Vec<u8> = (0..n).map(|i| if i == victim { 1 } else { 0 }).collect();
            let Some(mut sim) = formed(n, &cfg, Policy::Next, cseed, lat, run, "c05", json!({"groups": groups.clone(), "refalse": victim}), tw) else { continue };
            run += 1;
            let accuser = (victim + 1) % n;
            let vid = sim.id_of(victim);
            sim.call(accuser, Call::ApplyMany(vec![Member::new(vid, 0, State::Down)], true));
            let t = sim.now + 3 * cfg.period;
            sim.run_until(t);
            sim.partition(groups.clone());
            let t = sim.now + dur + 8000;
            sim.run_until(t);
            let md = mutual_down(&sim, &groups);
            sim.heal();
            let t = sim.now + 8 * 4000 + cfg.period;
            sim.run_until(t);
            sim.end(json!({"mutual_down": md}));
            cov.runs += 1;
            if md {
                cov.informative += 1;
            }
            *cov.kinds.entry("refalse".into()).or_insert(0) += 1;
        }
    }
    cov
}

// ------------------------------------------------------------------------------------------ C18

/// knowledge a has about b
#[derive(Clone, Copy, Debug, PartialEq)]
enum Know {
    Absent,
    Alive,
    Suspect,
    Down,
    /// knows an older generation of b
    Older,
}
const KNOWS: [Know; 5] = [Know::Absent, Know::Alive, Know::Suspect, Know::Down, Know::Older];

#[derive(Clone, Copy, Debug, PartialEq)]
enum Phase {
    Natural,
    Defunct,
}

pub fn c18(seed: u64, thorough: bool, tw: &mut TraceWriter) -> Cov {
    let mut master = SmallRng::seed_from_u64(seed);
    let mut cov = Cov::default();
    let mut run = 0u64;
    let kinds = ["Ping", "Ack", "PingReq", "IndirectPing", "IndirectAck", "ForwardedAck", "Announce", "Feed", "Gossip", "Broadcast", "TurnUndead"];
    for n in [2usize, 3] {
        let samples = if thorough { 6000 } else { 700 };
        for _ in 0..samples {
            let mut r = SmallRng::seed_from_u64(master.random());
            let mut cfg = base_cfg();
            cfg.notifydown = r.random_range(0..3) != 0;
            cfg.maxtx = pick(&mut r, &[1u8, 2, 3]);
            cfg.fanout = pick(&mut r, &[1usize, 2, 3]);
            let pol = pick(&mut r, &[Policy::None, Policy::None, Policy::Next, Policy::Next, Policy::Losing, Policy::Same, Policy::Cycle, Policy::Cycle]);
            let scfg = SimCfg { n, cfg: cfg.clone(), codec: CodecKind::Hand(Mode::Fixed), handler: HandlerCfg::default(), pol,
                                seed: r.random(), lat: (0, 0), late: 0 };
            let mut sim = Sim::new(scfg, run, "c18", json!({}), tw);
            run += 1;
            sim.hold_timers = true;
            for i in 0..n {
                // with the cycling policy some instances sit right before the wrap-around
                let g = if pol == Policy::Cycle && r.random_range(0..2) == 0 { 3 } else { 1 };
                sim.spawn(i, g);
            }
            // mutual knowledge
            let mut desc = vec![];
            for a in 0..n {
                let mut ups = vec![];
                for b in 0..n {
                    if a == b {
                        continue;
                    }
                    let k = KNOWS[r.random_range(0..KNOWS.len())];
                    desc.push(format!("{a}:{b}:{k:?}"));
                    let idb = sim.id_of(b);
                    match k {
                        Know::Absent => {}
                        Know::Alive => ups.push(Member::new(idb, 0, State::Alive)),
                        Know::Suspect => ups.push(Member::new(idb, 0, State::Suspect)),
                        Know::Down => ups.push(Member::new(idb, 0, State::Down)),
                        Know::Older => ups.push(Member::new(Id::new(idb.addr, 0), 0, pick(&mut r, &[State::Alive, State::Down]))),
                    }
                }
                // suspicions about other members (and itself) waiting in the backlog
                if r.random_range(0..2) == 0 {
                    let b = r.random_range(0..n);
                    ups.push(Member::new(sim.id_of(b), 0, State::Suspect));
                }
                if !ups.is_empty() {
                    sim.call(a, Call::ApplyMany(ups, true));
                }
                if r.random_range(0..4) == 0 {
                    sim.call(a, Call::Leave); // defunct
                }
            }
            // whatever the set-up sent is discarded: the exchange starts from ONE datagram
            while sim.in_flight() > 0 {
                sim.drop_all_in_flight();
            }
            let now = sim.now;
            sim.tw.env("formed", now, json!({"know": desc}));
            // the initial datagram
            let from = r.random_range(0..n);
            let to = (from + 1 + r.random_range(0..n - 1)) % n;
            let kind = kinds[r.random_range(0..kinds.len())];
            let src = if r.random_range(0..5) == 0 { Id::new(from as u8 + 1, 0) } else { sim.id_of(from) };
            let dst = sim.id_of(to);
            let other = sim.id_of((to + 1) % n);
            let msg = match kind {
                "Ping" => Message::Ping(1),
                "Ack" => Message::Ack(0),
                "PingReq" => Message::PingReq { target: other, probe_number: 1 },
                "IndirectPing" => Message::IndirectPing { origin: other, probe_number: 1 },
                "IndirectAck" => Message::IndirectAck { target: other, probe_number: 1 },
                "ForwardedAck" => Message::ForwardedAck { origin: other, probe_number: 0 },
                "Announce" => Message::Announce,
                "Feed" => Message::Feed,
                "Gossip" => Message::Gossip,
                "Broadcast" => Message::Broadcast,
                _ => Message::TurnUndead,
            };
            let mut members = vec![];
            if !matches!(msg, Message::Announce | Message::Broadcast | Message::TurnUndead) {
                for _ in 0..r.random_range(0..3) {
                    let b = r.random_range(0..n);
                    members.push(Member::new(sim.id_of(b), pick(&mut r, &[0u16, 1]), pick(&mut r, &[State::Alive, State::Suspect, State::Down])));
                }
            }
            let header = Header { src, src_incarnation: pick(&mut r, &[0u16, 1]), dst, message: msg };
            let tally = if members.is_empty() { None } else { Some(members.len() as u16) };
            let Some(bytes) = codec::build(sim.scfg.codec, &header, tally, &members, &[]) else { continue };
            sim.inject(from, to, bytes);
            // deliver in random order up to the cap
            let cap = 50 + 4 * cfg.maxtx as u64 * (n * n) as u64 * cfg.fanout as u64;
            let mut deliveries = 0;
            while sim.in_flight() > 0 && deliveries < cap {
                sim.step_random(&mut r);
                deliveries += 1;
            }
            *cov.kinds.entry(format!("init_{kind}")).or_insert(0) += 1;
            if deliveries > 1 {
                cov.informative += 1;
            }
            sim.end(json!({"deliveries": deliveries, "cap": cap}));
            cov.runs += 1;
        }
    }
    cov
}
