#!/bin/bash
# shake.sh <seed-from> <seed-to>: many seeds x driver flavours, ALL node-level monitors in one TLC pass per trace.
# Used to shake out rare false alarms of the monitors on the unchanged tree. Output: work/shake.log
R=${VERIF_ROOT:-/verif}; export R
mkdir -p $R/work/shake; cd $R/harness
FV=${FV:-/verif/harness/target/debug/fv}
run() { # name args...
  n=$1; shift
  $FV "$@" --out $R/work/shake/$n.ndjson > /dev/null 2>&1
  r=$(MON_C01=1 MON_C06=1 MON_C07=1 MON_C08=1 MON_C09=1 MON_C10=1 MON_C11=1 MON_C12=1 MON_C13=1 MON_C14=1 MON_C15=1 MON_C16=1 MON_C17=1 MON_C19=1 $R/tools/tv.sh Trace_Node $R/work/shake/$n.ndjson $R/work/shake/md.$n | grep -E '"RESULT"|rror' | cut -c1-6000)
  echo "$n $r" | python3 -c "
import sys,re,json
l=sys.stdin.read()
m=re.search(r'<<\"RESULT\", \"(.*)\">>',l)
if not m: print('TOOLERR',l[:300]); sys.exit()
r=json.loads(m.group(1).encode().decode('unicode_escape'))
print(l.split()[0],'calls',r['conf']['calls'],'ndiv',r['conf']['ndiv'],'viol',r['viol']['n'],[ (v['line'],v['call'],v['v']) for v in r['viol']['list']][:4], r['conf']['divs'][:2])
" >> $R/work/shake.log
  rm -f $R/work/shake/$n.ndjson
}
export -f run; export FV
for s in $(seq $1 $2); do
  echo "rnd-a-$s rnd --runs 40 --steps 300 --seed $s --codecs fixed,var,tiny,dirty"
  echo "rnd-b-$s rnd --runs 40 --steps 300 --seed $s --codecs fixed,var --forge --junk"
  echo "rnd-c-$s rnd --runs 40 --steps 300 --seed $s --codecs fixed --ordered"
  echo "rnd-d-$s rnd --runs 30 --steps 300 --seed $s --codecs fixed,dirty --twin --resize --forge --junk"
  echo "twin-$s twin --runs 30 --steps 200 --seed $s"
  echo "c14-$s c14 --sets 120 --nmax 6 --seed $s"
done | xargs -P ${SHAKE_PAR:-6} -L 1 bash -c 'run "$@"' _
