#!/bin/bash
# confirm_round3.sh [prop ...]: confirms the third round of sub-agent changes (/tmp/mut3/<prop>/OUT/{A,B}.*) as <prop>-E / <prop>-F
props="$@"; [ -z "$props" ] && props=$(ls -d /tmp/mut3/C*/OUT | sed 's#/tmp/mut3/##; s#/OUT##')
mkdir -p /verif/work
for p in $props; do [ -d /verif/seeded/$p-E ] || echo "$p A E"; [ -d /verif/seeded/$p-F ] || echo "$p B F"; done | xargs -P ${CONF_PAR:-3} -L 1 bash -c '[ -f /tmp/mut3/$0/OUT/$1.patch.diff ] && /verif/tools/confirm_mutant.sh $0 $1 /tmp/mut3 $2 2>&1 | tail -1' >> /verif/work/confirm3.txt
