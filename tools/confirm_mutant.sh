#!/bin/bash
# confirm_mutant.sh <prop> <A|B> [<srcdir> [<name-suffix>]] : confirms a sub-agent's seeded change in a fresh scratch worktree of /repo HEAD
#   - patch applies, crate builds, the 79 tests still pass
#   - the demonstration test passes WITHOUT the patch and fails WITH it
# on success copies the files to /verif/seeded/<prop>-<A|B>/
P=$1; X=$2; SRC=${3:-/tmp/mut}/$P/OUT; Y=${4:-$X}; W=/tmp/confirm-$P-$Y
rm -rf $W; git -C /repo worktree prune; git -C /repo worktree add -q --detach $W HEAD || exit 2
cp /repo/Cargo.lock $W/
cd $W
res="prop=$P variant=$X"
git apply --check $SRC/$X.patch.diff 2>/dev/null || { echo "$res PATCH-DOES-NOT-APPLY"; cd /; git -C /repo worktree remove --force $W; exit 1; }
git apply $SRC/$X.patch.diff
t1=$(cargo test --offline 2>&1 | grep -E "^test result" | head -1)
git apply $SRC/$X.demo.diff 2>/dev/null || { echo "$res DEMO-DOES-NOT-APPLY-ON-PATCH"; }
t2=$(cargo test --offline 2>&1 | grep -E "^test result" | head -1)
git checkout -q -- . ; git apply $SRC/$X.demo.diff
t3=$(cargo test --offline 2>&1 | grep -E "^test result" | head -1)
echo "$res | patched: $t1 | patched+demo: $t2 | clean+demo: $t3"
ok=0
echo "$t1" | grep -q "79 passed; 0 failed" && echo "$t2" | grep -q "79 passed; 1 failed" && echo "$t3" | grep -q "80 passed; 0 failed" && ok=1
cd /; git -C /repo worktree remove --force $W
if [ $ok = 1 ]; then
  D=/verif/seeded/$P-$Y; mkdir -p $D
  cp $SRC/$X.patch.diff $D/patch.diff; cp $SRC/$X.demo.diff $D/demo.diff; cp $SRC/$X.notes.md $D/notes.md
  echo "$res CONFIRMED"
else
  echo "$res NOT-CONFIRMED"
fi
