#!/usr/bin/env python3
"""ev.py <trace.ndjson> <line> [n]: prints a compact view of the event at <line> and the n events before it"""
import json, sys
f, line = sys.argv[1], int(sys.argv[2]); n = int(sys.argv[3]) if len(sys.argv) > 3 else 1
L = open(f).read().splitlines()
def mem(ms): return [(tuple(m['id']), m['inc'], m['st']) for m in ms]
for i in range(max(1, line - n), line + 1):
    e = json.loads(L[i - 1])
    if e.get('ev') != 'call':
        print(i, e.get('ev'), {k: v for k, v in e.items() if k in ('codec', 'pol', 'hrel', 'hpred', 'hacc', 'run')}); continue
    a = e['args']
    if e['call'] == 'data':
        desc = "%s %s->%s inc%s mem=%s items=%s len=%s" % (a['h']['msg'], a['h']['src'], a['h']['dst'], a['h']['inc'], mem(a['mem']), [(x['key'], x['ver'], x['sz']) for x in a['items']], a['len'])
    elif e['call'] == 'apply_many':
        desc = "%s bcast=%s" % (mem(a['updates']), a['bcast'])
    else:
        desc = json.dumps(a)[:200]
    print(i, e['call'], desc, '=>', e['res'], e.get('tag', ''))
    if e['hook']:
        h = e['hook']
        print('    id', e['pub']['id'], 'conn', h['conn'], 'tok', h['tok'], 'inc', h['inc'], 'maxpkt', h['cfg']['maxpkt'], 'maxtx', h['cfg']['maxtx'], 'fanout', h['cfg']['fanout'])
        print('    state', mem(e['pub']['state']), 'cursor', h['cursor'])
        print('    upd', [(tuple(u['m']['id']), u['m']['inc'], u['m']['st'], u['tx']) for u in h['upd']], 'cus', [(c['key'], c['ver'], c['sz'], c['tx']) for c in h['cus']])
        print('    probe', h['probe']['direct'] and mem(h['probe']['direct']), h['probe']['ind'], h['probe']['n'], h['probe']['ack'], h['probe']['reached'])
    for o in e['out']:
        if o['k'] == 'send':
            d = o['d']; print('    SEND', o['dst'], d['h']['msg']['k'], d['h']['msg']['n'], 'len', d['len'], 'tally', d['tally'], 'mem', mem(d['mem']), 'items', [(x['key'], x['ver'], x['sz']) for x in d['items']], o.get('peer'))
        elif o['k'] == 'timer': print('    TIMER', o['t']['k'], o['t']['tok'], o['t']['id'], o['after'])
        else: print('    NOTE', o['n']['k'], o['n']['id'], o['n']['id2'])
    if e['hlog']: print('    hlog', [(x['item']['key'], x['item']['ver'], x['v']) for x in e['hlog']])
