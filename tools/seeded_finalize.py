#!/usr/bin/env python3
"""rewrites seeded/*/meta.json and the table of seeded changes at the end of DESIGN.md from seeded/results*.txt"""
import os, re, subprocess
ROOT = os.path.dirname(os.path.dirname(os.path.abspath(__file__)))
subprocess.run(["python3", os.path.join(ROOT, "tools", "seeded_meta.py")], check=True, stdout=subprocess.DEVNULL)
table = subprocess.run(["python3", os.path.join(ROOT, "tools", "seeded_table.py")], check=True, capture_output=True, text=True).stdout
p = os.path.join(ROOT, "DESIGN.md")
s = open(p).read()
i = s.index("| seeded change | what it changes")
j = s.index("**Benign patches (last evaluation):**")
s = s[:i] + table + "\n" + s[j:]
open(p, "w").write(s)
rows = [l for l in table.splitlines() if l.startswith("| C")]
det = sum(1 for l in rows if re.search(r"\| 1 \| \d+ \| \d+ \|", l))
print("rows", len(rows), "detected", det, "not evaluated", sum("not evaluated" in l for l in rows))
