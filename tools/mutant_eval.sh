#!/bin/bash
# mutant_eval.sh <seeded-name> <prop> [<prop> ...]
# Runs the quick checks of the given properties against a seeded change WITHOUT touching /repo:
# a scratch worktree of /repo HEAD gets the patch, a scratch copy of /verif gets its harness pointed at it.
# Output: /verif/work/mutants/<name>.<prop>.log and a summary line on stdout.
N=$1; shift  # scratch directory private to this invocation
S=/tmp/mx/$N.$$; rm -rf $S; mkdir -p $S /verif/work/mutants
git -C /repo worktree prune
git -C /repo worktree add -q --detach $S/repo HEAD || exit 2
cp /repo/Cargo.lock $S/repo/
( cd $S/repo && git apply /verif/seeded/$N/patch.diff ) || { echo "$N: patch does not apply"; git -C /repo worktree remove --force $S/repo; exit 2; }
rsync -a --exclude work --exclude 'harness/target' --exclude .git --exclude evidence --exclude replays /verif/ $S/verif/
sed -i "s#path = \"/repo\"#path = \"$S/repo\"#" $S/verif/harness/Cargo.toml
mkdir -p $S/verif/evidence $S/verif/replays
for P in "$@"; do
  ( cd $S/verif && VERIF_SKIP_MC=1 VERIF_TLC_PAR=${MUT_PAR:-4} python3 tools/check.py $P --tier ${MUT_TIER:-quick} > /verif/work/mutants/$N.$P.log 2>&1 ; echo "rc=$?" >> /verif/work/mutants/$N.$P.log )
  rc=$(tail -1 /verif/work/mutants/$N.$P.log)
  v=$(grep -c "^VIOLATION" /verif/work/mutants/$N.$P.log)
  d=$(grep -c "^CONFORMANCE-DIVERGENCE" /verif/work/mutants/$N.$P.log)
  c=$(grep -m1 "clause:" /verif/work/mutants/$N.$P.log | sed 's/ *call:.*//')
  echo "MUTANT $N check=$P $rc violations=$v divergences=$d $c"
done
git -C /repo worktree remove --force $S/repo; rm -rf $S
