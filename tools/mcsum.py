#!/usr/bin/env python3
"""summarise a TLC counterexample of MC_Node: per state the call, result and a few state fields"""
import re, sys
t = open(sys.argv[1]).read()
n = int(sys.argv[2]) if len(sys.argv) > 2 else 8
states = re.split(r'\nState \d+: ', t)
for s in states[-n:]:
    lo = re.search(r'lastObs = (.*)', s)
    conn = re.search(r'conn \|-> "(\w)"', s); tok = re.search(r'\n\s+tok \|-> (\d+)', s)
    idm = re.search(r'\n\s+id \|-> (<<\d+, \d+>>),\n\s+mem', s)
    mem = re.search(r'\n  mem \|->\s*(.*?),\n  probe', s, re.S)
    probe = re.search(r'\n  probe \|->\s*(.*?),\n  tok', s, re.S)
    ep = re.search(r'epochs = (\d+)', s)
    print('----', lo.group(1) if lo else None, '| conn', conn.group(1) if conn else None, 'tok', tok.group(1) if tok else None,
          'id', idm.group(1) if idm else None, 'epochs', ep.group(1) if ep else None)
    if mem: print('   mem', re.sub(r'\s+', ' ', mem.group(1))[:400])
    if probe: print('   probe', re.sub(r'\s+', ' ', probe.group(1))[:300])
    for m in re.finditer(r'(C\d\d) \|->\s*\[\s*v \|-> (\{[^}]+\})', s):
        print('   VIOL', m.group(1), m.group(2))
    for m in re.finditer(r'v \|-> (\{"[^}]+\})', s):
        print('   viol', m.group(1))
