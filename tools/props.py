"""Per-property configuration of tools/check.py: which model-checking configs decide the property on
the specification, which harness drivers exercise the real code, which monitors are evaluated."""


def rnd(extra, shards, runs=40, steps=300, **kw):
    d = {"args": ["rnd", "--runs", str(runs), "--steps", str(steps)] + extra, "shards": shards}
    d.update(kw)
    return d


ALLC = "fixed,var,tiny"
SERDE = "bincode,postcard"

# the adversarial single-node environment, in the flavours the monitors need
def node_drivers(q, t, flavours):
    return {
        "quick": [rnd(f, q) for f in flavours],
        "thorough": [rnd(f, t, runs=60, steps=400) for f in flavours],
    }


PROPS = {}

NODE_MONS = ["C07", "C08", "C09", "C10", "C11", "C12", "C13", "C19"]


def node_mc(mon):
    """MC_Node: the adversarial single-node environment with the monitor as invariant.
    exhaustive tiny scope to depth 2 + random walks (depth 60) over the full alphabet, with and without
    forged timers"""
    env = {"MC_MONSET": mon}
    return [
        {"module": "MC_Node", "cfg": "MC_Node_tiny.cfg", "workers": 12, "timeout": 1500, "env": env,
         "what": "exhaustive: every call of the tiny alphabet, depth 2, all renew policies", "tiers": ("thorough",)},
        {"module": "MC_Node", "cfg": "MC_Node_sim.cfg", "workers": 8, "env": env,
         "simulate": {"quick": "-simulate num=2500 -depth 61", "thorough": "-simulate num=60000 -depth 61"},
         "timeout": {"quick": 300, "thorough": 1500},
         "what": "random walks of depth 60 over the full alphabet, timers delivered exactly once in any order"},
        {"module": "MC_Node", "cfg": "MC_Node_simforge.cfg", "workers": 8, "env": env,
         "simulate": {"quick": "-simulate num=1500 -depth 61", "thorough": "-simulate num=30000 -depth 61"},
         "timeout": {"quick": 300, "thorough": 1500},
         "what": "as above plus forged / stale / duplicated timers"},
    ]

PROPS["C08"] = {
    "level": "model_checking",
    "monitors": ["C08"],
    "mc": node_mc("C08"),
    "drivers": node_drivers(3, 12, [["--codecs", ALLC, "--twin"], ["--codecs", "fixed", "--forge", "--junk", "--twin"]]),
}
PROPS["C09"] = {
    "level": "model_checking",
    "monitors": ["C09"],
    "mc": node_mc("C09"),
    "drivers": node_drivers(3, 12, [["--codecs", ALLC], ["--codecs", "fixed,var", "--forge", "--junk"]]),
}
PROPS["C10"] = {
    "level": "model_checking",
    "monitors": ["C10"],
    "mc": node_mc("C10"),
    "drivers": node_drivers(3, 12, [["--codecs", ALLC], ["--codecs", "fixed,var", "--forge", "--junk"]]),
}
PROPS["C11"] = {
    "level": "model_checking",
    "monitors": ["C11"],
    "mc": node_mc("C11"),
    "drivers": node_drivers(3, 12, [["--codecs", ALLC], ["--codecs", "fixed", "--forge"]]),
}
PROPS["C13"] = {
    "level": "model_checking",
    "monitors": ["C13"],
    "mc": node_mc("C13"),
    "drivers": node_drivers(3, 12, [["--codecs", ALLC], ["--codecs", "fixed", "--ordered"], ["--codecs", "fixed", "--forge"]]),
}
PROPS["C19"] = {
    "level": "model_checking",
    "monitors": ["C19"],
    "mc": node_mc("C19"),
    "drivers": node_drivers(3, 12, [["--codecs", ALLC], ["--codecs", "fixed,var", "--forge", "--junk"]]),
}
PROPS["C07"] = {
    "level": "model_checking",
    "monitors": ["C07"],
    "mc": node_mc("C07"),
    "drivers": node_drivers(3, 12, [["--codecs", ALLC], ["--codecs", "fixed,var", "--forge", "--junk", "--resize"]]),
}

PROPS["C12"] = {
    "level": "model_checking",
    "monitors": ["C12"],
    "mc": node_mc("C12"),
    "drivers": node_drivers(3, 12, [["--codecs", ALLC], ["--codecs", "fixed", "--ordered"], ["--codecs", "fixed,var", "--forge", "--junk"]]),
}


# ------------------------------------------------------------------------------------------------
# texts for MANIFEST.json

NODE_NOTE = ("Trusted base: TLC; the TLA+ specification (spec/FocaNode.tla transcribes src/lib.rs, member.rs, "
             "broadcast.rs, probe.rs) - bound to the code by one-step conformance of every recorded call "
             "(0 divergences required on the unchanged tree, reported in the evidence); the harness' independent "
             "datagram parser; the verif_snapshot hook (read-only). The model-level result is exhaustive only for the "
             "tiny scope/depth stated in the evidence and random beyond it; on the real code the property is evaluated "
             "on every step of every explored history, which is a sample of all histories.")


def node_text(what, technique):
    return {
        "level_text": ("The property's TLA+ monitor (spec/Mon%s.tla) is an invariant of MC_Node (one instance in an adversarial "
                       "environment: every datagram kind from several generations per address incl. the instance's own, any "
                       "timer order, every public call; small moduli so that saturation and wrap-around are reached): checked "
                       "by TLC exhaustively for a tiny scope and by random walks of depth 60 over the full alphabet. The same "
                       "monitor is then evaluated by TLC on every step of ~10^5 (quick) / ~10^6 (thorough) recorded calls of the "
                       "real code, each of which is also checked for one-step conformance with the specification. " + what),
        "level_note": NODE_NOTE,
        "technique": technique,
    }


TEXT = {
    "C07": node_text("Datagrams are judged on the independent parser's view of the bytes and on a scratch peer's verdict.",
                     "TLA+ spec + TLC (MC_Node invariant MonC07) + trace validation of harness traces with an independent datagram parser"),
    "C08": node_text("Includes a twin instance driven through AccumulatingRuntime in lock-step.",
                     "TLA+ spec + TLC (MC_Node invariant MonC08) + trace validation incl. AccumulatingRuntime twin"),
    "C09": node_text("", "TLA+ spec + TLC (MC_Node invariant MonC09) + trace validation"),
    "C10": node_text("Incarnations 0, MAX-1 and MAX are part of both alphabets (IncMax=3 in the model, 65535 on the code).",
                     "TLA+ spec + TLC (MC_Node invariant MonC10) + trace validation"),
    "C11": node_text("", "TLA+ spec + TLC (MC_Node invariant MonC11) + trace validation"),
    "C12": node_text("", "TLA+ spec + TLC (MC_Node invariant MonC12) + trace validation"),
    "C13": node_text("Timers are delivered exactly once in arbitrary order, in deadline order with lateness, and (separately) "
                     "with forged/duplicated timers.",
                     "TLA+ spec + TLC (MC_Node invariant MonC13) + trace validation"),
    "C19": node_text("", "TLA+ spec + TLC (MC_Node invariant MonC19) + trace validation"),
}

NOT_APPLICABLE = {
    "C20": ("byte-level encode/decode fidelity of two serde back-ends (pure function pair, truncation, arbitrary bytes): a "
            "TLA+ state-machine specification has nothing to enumerate there; the spec treats the codec as an environment "
            "function (DESIGN.md section 9). bincode/postcard are only exercised incidentally through the C07 drivers."),
}
