"""Per-property configuration of tools/check.py: which model-checking configs decide the property on
the specification, which harness drivers exercise the real code, which monitors are evaluated."""


def rnd(extra, shards, runs=40, steps=300, **kw):
    d = {"args": ["rnd", "--runs", str(runs), "--steps", str(steps)] + extra, "shards": shards}
    d.update(kw)
    return d


ALLC = "fixed,var,tiny,dirty"
SERDE = "bincode,postcard"

# the adversarial single-node environment, in the flavours the monitors need
def node_drivers(q, t, flavours):
    return {
        "quick": [rnd(f, q) for f in flavours],
        "thorough": [rnd(f, t, runs=60, steps=400) for f in flavours],
    }


PROPS = {}

NODE_MONS = ["C07", "C08", "C09", "C10", "C11", "C12", "C13", "C19"]


def node_mc(mon):
    """MC_Node: the adversarial single-node environment with the monitor as invariant.
    exhaustive tiny scope to depth 2 + random walks (depth 60) over the full alphabet, with and without
    forged timers"""
    env = {"MC_MONSET": mon}
    return [
        {"module": "MC_Node", "cfg": "MC_Node_tiny.cfg", "workers": 12, "timeout": 1500, "env": env,
         "what": "exhaustive: every call of the tiny alphabet, depth 2, all renew policies", "tiers": ("thorough",)},
        {"module": "MC_Node", "cfg": "MC_Node_sim.cfg", "workers": 8, "env": env,
         "simulate": {"quick": "-simulate num=1200 -depth 61", "thorough": "-simulate num=8000 -depth 61"},
         "timeout": {"quick": 300, "thorough": 1500},
         "what": "random walks of depth 60 over the full alphabet, timers delivered exactly once in any order"},
        {"module": "MC_Node", "cfg": "MC_Node_simforge.cfg", "workers": 8, "env": env,
         "simulate": {"quick": "-simulate num=800 -depth 61", "thorough": "-simulate num=5000 -depth 61"},
         "timeout": {"quick": 300, "thorough": 1500},
         "what": "as above plus forged / stale / duplicated timers"},
    ]

PROPS["C08"] = {
    "level": "model_checking",
    "monitors": ["C08"],
    "mc": node_mc("C08"),
    "drivers": node_drivers(3, 12, [["--codecs", ALLC, "--twin"], ["--codecs", "fixed", "--forge", "--junk", "--twin"], ["--codecs", "fixed,var", "--forge", "--resize"]]),
}
PROPS["C09"] = {
    "level": "model_checking",
    "monitors": ["C09"],
    "mc": node_mc("C09"),
    "drivers": node_drivers(3, 12, [["--codecs", ALLC], ["--codecs", "fixed,var", "--forge", "--junk"]]),
}
PROPS["C10"] = {
    "level": "model_checking",
    "monitors": ["C10"],
    "mc": node_mc("C10"),
    "drivers": node_drivers(3, 12, [["--codecs", ALLC], ["--codecs", "fixed,var", "--forge", "--junk"]]),
}
PROPS["C11"] = {
    "level": "model_checking",
    "monitors": ["C11"],
    "mc": node_mc("C11"),
    "drivers": node_drivers(3, 12, [["--codecs", ALLC], ["--codecs", "fixed", "--forge"], ["--codecs", "fixed,var", "--resize"]]),
}
PROPS["C13"] = {
    "level": "model_checking",
    "monitors": ["C13"],
    "mc": node_mc("C13"),
    "drivers": node_drivers(3, 12, [["--codecs", ALLC], ["--codecs", "fixed", "--ordered"], ["--codecs", "fixed", "--forge"], ["--codecs", "fixed,var", "--resize"]]),
}
PROPS["C19"] = {
    "level": "model_checking",
    "monitors": ["C19"],
    "mc": node_mc("C19"),
    "drivers": node_drivers(3, 12, [["--codecs", ALLC], ["--codecs", "fixed,var", "--forge", "--junk"]]),
}
PROPS["C07"] = {
    "level": "model_checking",
    "monitors": ["C07"],
    "mc": node_mc("C07"),
    "drivers": node_drivers(3, 12, [["--codecs", ALLC], ["--codecs", "fixed,var", "--forge", "--junk", "--resize"]]),
}

PROPS["C12"] = {
    "level": "model_checking",
    "monitors": ["C12"],
    "mc": node_mc("C12"),
    "drivers": node_drivers(3, 12, [["--codecs", ALLC], ["--codecs", "fixed", "--ordered"], ["--codecs", "fixed,var", "--forge", "--junk"]]),
}


# ------------------------------------------------------------------------------------------------
# texts for MANIFEST.json

NODE_NOTE = ("Trusted base: TLC; the TLA+ specification (spec/FocaNode.tla transcribes src/lib.rs, member.rs, "
             "broadcast.rs, probe.rs) - bound to the code by one-step conformance of every recorded call "
             "(0 divergences required on the unchanged tree, reported in the evidence); the harness' independent "
             "datagram parser; the verif_snapshot hook (read-only). The model-level result is exhaustive only for the "
             "tiny scope/depth stated in the evidence and random beyond it; on the real code the property is evaluated "
             "on every step of every explored history, which is a sample of all histories.")


def node_text(what, technique):
    return {
        "level_text": ("The property's TLA+ monitor (spec/MonC<nn>.tla, named in `technique`) is an invariant of MC_Node (one instance in an adversarial "
                       "environment: every datagram kind from several generations per address incl. the instance's own, any "
                       "timer order, every public call; small moduli so that saturation and wrap-around are reached): checked "
                       "by TLC exhaustively for a tiny scope (thorough tier) and by random walks of depth 60 over the full alphabet; behaviours generated by TLC from that model are also replayed on the real code. The same "
                       "monitor is then evaluated by TLC on every step of ~10^5 (quick) / ~10^6 (thorough) recorded calls of the "
                       "real code, each of which is also checked for one-step conformance with the specification. " + what),
        "level_note": NODE_NOTE,
        "technique": technique,
    }


TEXT = {
    "C07": node_text("Datagrams are judged on the independent parser's view of the bytes and on a scratch peer's verdict.",
                     "TLA+ spec + TLC (MC_Node invariant MonC07) + trace validation of harness traces with an independent datagram parser"),
    "C08": node_text("Includes a twin instance driven through AccumulatingRuntime in lock-step.",
                     "TLA+ spec + TLC (MC_Node invariant MonC08) + trace validation incl. AccumulatingRuntime twin"),
    "C09": node_text("", "TLA+ spec + TLC (MC_Node invariant MonC09) + trace validation"),
    "C10": node_text("Incarnations 0, MAX-1 and MAX are part of both alphabets (IncMax=3 in the model, 65535 on the code).",
                     "TLA+ spec + TLC (MC_Node invariant MonC10) + trace validation"),
    "C11": node_text("", "TLA+ spec + TLC (MC_Node invariant MonC11) + trace validation"),
    "C12": node_text("", "TLA+ spec + TLC (MC_Node invariant MonC12) + trace validation"),
    "C13": node_text("Timers are delivered exactly once in arbitrary order, in deadline order with lateness, and (separately) "
                     "with forged/duplicated timers.",
                     "TLA+ spec + TLC (MC_Node invariant MonC13) + trace validation"),
    "C19": node_text("", "TLA+ spec + TLC (MC_Node invariant MonC19) + trace validation"),
}

NOT_APPLICABLE = {
    "C20": ("byte-level encode/decode fidelity of two serde back-ends (pure function pair, truncation, arbitrary bytes): a "
            "TLA+ state-machine specification has nothing to enumerate there; the spec treats the codec as an environment "
            "function (DESIGN.md section 9). bincode/postcard are only exercised incidentally through the C07 drivers."),
}

PROPS["C01"] = {
    "level": "model_checking",
    "monitors": ["C01"],
    "exhaustive": True,
    "mc": [
        {"module": "MC_C01", "cfg": "MC_C01.cfg", "workers": 8, "timeout": 1500,
         "what": "COMPLETE for the abstract domain: all 784 membership tables over 2 addresses x 3 generations x "
                 "incarnations {0,1,MAX} x 3 states; monotonicity, join, pairwise commutation, idempotence, "
                 "self re-application, cached active count for every update / pair of updates; state exchange for "
                 "every pair of tables"},
    ],
    "drivers": {
        "quick": [{"args": ["c01"], "shards": 2}, rnd(["--codecs", "fixed"], 2)],
        "thorough": [{"args": ["c01", "--thorough"], "shards": 6}, rnd(["--codecs", ALLC, "--forge", "--junk"], 6, runs=60, steps=400)],
    },
    "goals": {"cov_nontrivial": {"quick": 1000, "thorough": 10000}},
}
TEXT["C01"] = {
    "level_text": ("TLC enumerates the membership component of the specification (spec/Members.tla, a line-by-line "
                   "transcription of member.rs) COMPLETELY for the abstract domain: every table over 2 addresses x 3 "
                   "generations x incarnations {0,1,MAX} x {Alive,Suspect,Down} (784 tables) against every update and every "
                   "pair of updates (monotone in the precedence order; result = join; pairwise commutation and idempotence "
                   "modulo the incarnation stored next to Down, which by induction gives every permutation and "
                   "multiplicity; self re-application is the identity) and every pair of tables for the two-way "
                   "state-exchange clause. The real Foca::apply_many is then driven through all ordered pairs over boundary "
                   "incarnations {0,1,65534,65535}, random multisets in all (<=120/720) permutations with duplications, "
                   "self re-application and two-instance exchanges; every call is checked for one-step conformance with the "
                   "specification and the lattice monitor (spec/MonC01.tla) is evaluated on every call and every group."),
    "level_note": NODE_NOTE + " The complete enumeration uses IncMax=2 as the saturation point; the code's u16 boundaries "
                  "are exercised by the driver, not by the model.",
    "technique": "TLA+ spec + TLC complete enumeration of the membership lattice (MC_C01) + permutation/exchange driver on Foca::apply_many with trace validation (MonC01)",
}

PROPS["C15"] = {
    "level": "model_checking",
    "monitors": ["C15"],
    "mc": node_mc("C15"),
    "drivers": node_drivers(3, 12, [["--codecs", ALLC], ["--codecs", "var,fixed", "--forge", "--junk"]]),
}
TEXT["C15"] = node_text("The backlog accounting uses the hook's per-entry remaining transmissions (admitted by the property as a "
                        "cross-check) against the update sections of the datagrams; packet sizes from one-update-fits to "
                        "everything-fits and fixed/variable update sizes are part of the driver's configuration space.",
                        "TLA+ spec + TLC (MC_Node invariant MonC15, Backlog!FillOk) + trace validation")


# ------------------------------------------------------------------------------------------------
# cluster-level properties: simulator drivers + MonCluster on Trace_Cluster

def cl(driver, extra=None, shards=1, **kw):
    d = {"args": [driver] + (extra or []), "shards": shards, "spec": "Trace_Cluster", "cfg": "Trace_Cluster.cfg",
         "conformance": False}
    d.update(kw)
    return d


# complete (non-lite) cluster traces, checked for one-step conformance per node by Trace_Node
def cl_full(driver, extra=None, shards=1):
    return {"args": [driver, "--full"] + (extra or []), "shards": shards}


CLUSTER_NOTE = ("Trusted base: TLC; the cluster simulator of the harness (integer clock, one event queue, latencies, "
                "fault injection) - it is the environment the property quantifies over, so its own correctness is "
                "assumed; the monitor's fixed bounds where the statement only says 'bounded'/'linear' (DESIGN.md "
                "section 7). The fault points are enumerated by the driver on real instances; the configurations, "
                "seeds and latencies are sampled.")

PROPS["C02"] = {
    "level": "exploration",
    "monitors": ["C02"],
    "mc": [],
    "drivers": {
        "quick": [cl("c02", ["--runs", "60", "--nmax", "8"], 4), cl_full("c02", ["--runs", "6", "--nmax", "5"], 1)],
        "thorough": [cl("c02", ["--runs", "250", "--nmax", "16"], 12), cl_full("c02", ["--runs", "20", "--nmax", "6"], 4)],
    },
    "goals": {"cov_informative": {"quick": 150, "thorough": 2000}},
}
PROPS["C03"] = {
    "level": "fault_enumeration",
    "monitors": ["C03"],
    "mc": [],
    "drivers": {
        "quick": [cl("c03", [], 3)],
        "thorough": [cl("c03", ["--thorough"], 6)],
    },
    "goals": {"cov_crash": {"quick": 100, "thorough": 2000}, "cov_leave": {"quick": 100, "thorough": 2000}},
}
PROPS["C04"] = {
    "level": "fault_enumeration",
    "monitors": ["C04"],
    "mc": [],
    "drivers": {
        "quick": [cl("c04", [], 3)],
        "thorough": [cl("c04", ["--thorough", "--maxruns", "1500"], 6)],
    },
    "goals": {"cov_drop_Ping": {"quick": 50}, "cov_drop_Ack": {"quick": 50}, "cov_drop_PingReq": {"quick": 1},
              "cov_drop_IndirectPing": {"quick": 1}, "cov_drop_IndirectAck": {"quick": 1},
              "cov_drop_ForwardedAck": {"quick": 1}, "cov_drop_Gossip": {"quick": 1}},
}
PROPS["C05"] = {
    "level": "exploration",
    "monitors": ["C05"],
    "mc": [],
    "drivers": {
        "quick": [cl("c05", [], 3)],
        "thorough": [cl("c05", ["--thorough", "--maxruns", "400"], 6)],
    },
    "goals": {"cov_informative": {"quick": 60, "thorough": 400}},
}
PROPS["C18"] = {
    "level": "exploration",
    "monitors": ["C18"],
    "mc": [],
    "drivers": {
        "quick": [cl("c18", [], 3), cl_full("c18", [], 1)],
        "thorough": [cl("c18", ["--thorough"], 8), cl_full("c18", [], 4)],
    },
    "goals": {"cov_informative": {"quick": 1000, "thorough": 10000}},
}


def cluster_text(what, technique):
    return {
        "level_text": what,
        "level_note": CLUSTER_NOTE,
        "technique": technique,
    }


TEXT["C02"] = cluster_text(
    "N real instances (2..8 quick, 2..16 thorough) run in the harness' cluster simulator with random join orders and seed "
    "members, latencies below probe_rtt/4, random fan-out, max_transmissions 1..10, periodic gossip/announce on or off and "
    "packet sizes from just-feeds-the-cluster to 1400 (smaller ones for the zero-false-suspicion clause only). TLC evaluates "
    "the C02 monitor of spec/MonCluster.tla on every recorded call (no error, no MemberDown/Idle/Defunct/Rejoin, no live member "
    "recorded Suspect/Down) and the discovery clause at (4n+10) probe periods after the last join, split into told-but-not-listed / "
    "dissemination-pending / epidemic-extinct. A few complete runs are also validated for per-node one-step conformance "
    "with FocaNode!Step.",
    "cluster simulator on real instances + TLA+ monitor (MonCluster!C02) evaluated by TLC on the traces; per-node conformance with the TLA+ spec")
TEXT["C03"] = cluster_text(
    "For formed clusters of 2..5 (..8) real instances the driver crashes or makes leave every sampled non-empty proper subset at "
    "EVERY event index (quick: every 3rd) of a window covering one full rotation, and runs to the statement's own bound "
    "(2n+1) periods + suspect_to_down_after. TLC evaluates MonCluster!C03 on every call: MemberDown for every failed member at every "
    "survivor that listed it within the bound, no survivor declared Down, the leaver's gossip reported in the very call that "
    "processed it, no Ack from the leaver.",
    "fault enumeration in the cluster simulator (crash/leave at every event index) + TLA+ monitor (MonCluster!C03) evaluated by TLC")
TEXT["C04"] = cluster_text(
    "For formed clusters of 2..4 (..8) real instances, with notify_down_members on/off, renewable/non-renewable identities and two "
    "latency regimes (so that indirect probing runs routinely), the driver re-runs the cluster once per datagram index of a window "
    "of 2n probe periods, dropping exactly that datagram (Ping, Ack, PingReq, IndirectPing, IndirectAck, ForwardedAck, Gossip). "
    "TLC evaluates MonCluster!C04: no MemberDown/Defunct/Rejoin anywhere, everyone Alive everywhere by "
    "suspect_to_down_after + (2n+2) periods after the drop.",
    "fault enumeration in the cluster simulator (every single datagram of a window dropped) + TLA+ monitor (MonCluster!C04) evaluated by TLC")
TEXT["C05"] = cluster_text(
    "Formed clusters of 3..5 (..8) real instances with renewable identities, notify_down_members and periodic announce to down "
    "members: every split shape, partition held until both sides declared each other Down (checked, counted), heal instants swept over "
    "one announce period, plus the asymmetric single-false-Down case. TLC evaluates MonCluster!C05: never Defunct, every Rejoin wins, "
    "everyone lists everyone's current identity within 8 announce-to-down periods, told-down => Rejoin => Active afterwards.",
    "cluster simulator (partition/heal) on real instances + TLA+ monitor (MonCluster!C05) evaluated by TLC")
TEXT["C18"] = cluster_text(
    "2 and 3 real instances are put in random mutual-knowledge states (absent/alive/suspect/down/older generation, defunct or not, "
    "pending suspicions in the backlog, renewable or not, notify_down_members on/off), timers are held, one datagram of every kind is "
    "injected and the resulting datagrams are delivered in random order. TLC evaluates MonCluster!C18: at most 2*fanout+2 datagrams per "
    "delivery and an empty network within the cap 50 + 4*maxtx*n^2*fanout. Complete traces are also checked for conformance.",
    "cluster simulator with timers held on real instances + TLA+ monitor (MonCluster!C18) evaluated by TLC")

PROPS["C14"] = {
    "level": "model_checking",
    "monitors": ["C14"],
    "exhaustive": True,
    "mc": [
        {"module": "MC_C14", "cfg": "MC_C14_3_2.cfg", "workers": 8, "timeout": 1500,
         "what": "exhaustive: 3 active + 2 Down records, all 120 orders x 7 cursors, every permutation at every reshuffle"},
        {"module": "MC_C14", "cfg": "MC_C14_4_1.cfg", "workers": 8, "timeout": 2400, "tiers": ("thorough",),
         "what": "exhaustive: 4 active + 1 Down record"},
    ],
    "drivers": {
        "quick": [{"args": ["c14", "--sets", "250", "--nmax", "6"], "shards": 3}],
        "thorough": [{"args": ["c14", "--sets", "1500", "--nmax", "8"], "shards": 8}],
    },
    "goals": {"cov_rounds": {"quick": 5000, "thorough": 100000}},
}
TEXT["C14"] = {
    "level_text": ("Members::next is transcribed exactly (spec/Members.tla: NextMember - reshuffle iff the cursor passed the end, "
                   "first active record at/after the cursor, wrap-around sets the cursor to MAX). TLC explores it exhaustively "
                   "from EVERY initial arrangement (all orders of n active and d Down records, every cursor value incl. MAX) with "
                   "every permutation at every reshuffle and checks that no active member goes 2n-1 rounds unprobed and that a "
                   "Down record is never chosen; the bound is tight in the model. On the real code stable sets of 1..6 (..8) active "
                   "and 0..3 Down records are reached through joins, removals and forgetting in random order, then probed for 6n "
                   "rounds: each round's NextMember step is checked exactly (order, cursor, chosen) by conformance and the window "
                   "property by spec/MonC14.tla on the observed Ping destinations."),
    "level_note": NODE_NOTE,
    "technique": "TLA+ spec + TLC exhaustive over all orders/cursors/Down layouts (MC_C14) + trace validation of probe rounds (exact NextMember conformance + MonC14)",
}

PROPS["C17"] = {
    "level": "model_checking",
    "monitors": ["C17"],
    "mc": node_mc("C17"),
    "drivers": {
        "quick": [{"args": ["twin", "--runs", "40", "--steps", "200"], "shards": 4}],
        "thorough": [{"args": ["twin", "--runs", "100", "--steps", "400"], "shards": 12}],
    },
    "goals": {"cov_inserted": {"quick": 20000, "thorough": 300000}},
}
TEXT["C17"] = {
    "level_text": ("On the specification the property is the invariant RejectedLeavesNoTrace of MC_Node: in every reachable state "
                   "(exhaustive tiny scope, random walks of depth 60 beyond it) every input of the rejected classes - oversized, "
                   "undecodable header / member list, own identity or address as source, one stray byte or an Announce with data "
                   "right after the header, wrong destination, stale-epoch timers of every kind, NotUndead, SameIdentity, "
                   "InvalidConfig, empty / oversized add_broadcast - is a stuttering step with the class's result; determinism is "
                   "structural (Step is a function of state, input and the tape of RNG choices). On the real code twin lanes run "
                   "the same base history with and without 0..3 rejected inputs inserted before every step; TLC (spec/MonC17.tla) "
                   "requires results, ordered effects, public view, hook view, handler calls and the RNG draw count to coincide at "
                   "every aligned step and every inserted input to change nothing; each call is also checked for conformance."),
    "level_note": NODE_NOTE,
    "technique": "TLA+ spec + TLC (MC_Node invariant RejectedLeavesNoTrace) + twin-run driver with trace validation (MonC17)",
}

PROPS["C16"] = {
    "level": "model_checking",
    "monitors": ["C16"],
    "mc": node_mc("C16"),
    "drivers": node_drivers(3, 12, [["--codecs", ALLC], ["--codecs", "fixed,var", "--forge", "--junk"]]),
}
TEXT["C16"] = node_text("The handler is scripted (keys/versions parsed from item bytes whose filler is a function of key, version and "
                        "position, three invalidation relations, three recipient predicates, accepting / discarding / failing "
                        "handlers); its call log is part of every trace event.",
                        "TLA+ spec + TLC (MC_Node invariant MonC16, Backlog!FillOk with length prefix) + trace validation with a scripted BroadcastHandler")

ALLFLAGS = ["--forge", "--junk", "--resize"]
PROPS["C06"] = {
    "level": "exploration",
    "monitors": ["C06"],
    "profiles": ["dev", "release"],
    "mc": node_mc("C06"),
    "drivers": {
        "quick": [rnd(["--codecs", ALLC] + ALLFLAGS, 3), rnd(["--codecs", ALLC] + ALLFLAGS, 2, profile="release"),
                  rnd(["--codecs", SERDE] + ALLFLAGS, 2, conformance=False),
                  rnd(["--codecs", SERDE] + ALLFLAGS, 1, conformance=False, profile="release"),
                  {"args": ["twin", "--runs", "20", "--steps", "200"], "shards": 1},
                  {"args": ["cfgsweep"], "shards": 1}, {"args": ["cfgsweep"], "shards": 1, "profile": "release"}],
        "thorough": [rnd(["--codecs", ALLC] + ALLFLAGS, 8, runs=60, steps=500),
                     rnd(["--codecs", ALLC] + ALLFLAGS, 6, runs=60, steps=500, profile="release"),
                     rnd(["--codecs", SERDE] + ALLFLAGS, 4, runs=60, steps=500, conformance=False),
                     rnd(["--codecs", SERDE] + ALLFLAGS, 4, runs=60, steps=500, conformance=False, profile="release"),
                     {"args": ["cfgsweep", "--full"], "shards": 1, "profile": "release", "seed_fixed": 1},
                     {"args": ["cfgsweep"], "shards": 1}],
    },
    "rule": "cases = public calls executed under catch_unwind (debug-assertion and release builds, hand-written and serde codecs) "
            "plus Config constructor calls; distinct/non-trivial = distinct states of the trace specification (one per call with "
            "its full observation) plus model states",
}
TEXT["C06"] = {
    "level_text": ("Exploration. The state-dependent part - which call histories reach which debug assertion - is decided on the "
                   "specification: FocaNode carries the assertion state (send_buf capacity vs max_packet_size is the only assertion "
                   "whose truth depends on history; Step yields Panic when it would trip) and NoPanic is an invariant of MC_Node "
                   "over all public calls incl. set_config changing the packet size and forged/stale timers. The byte-level and "
                   "arithmetic part cannot be decided by a TLA+ model and is explored on the real code: every call of long random "
                   "histories (all public methods, random/truncated/bit-flipped bytes up to twice the packet size, adversarial "
                   "well-formed headers, incarnations at 0/65534/65535, forged timers with arbitrary tokens, 3 hand-written and "
                   "the 2 serde codecs) runs under catch_unwind in a debug-assertion build (overflow checks on) and in a release "
                   "build; a panic is recorded as the call's result and reported by TLC from the trace. Config::new_lan/new_wan: "
                   "boundary + 2*10^5 random sizes (quick), all 2^32 sizes for both constructors (thorough, release)."),
    "level_note": ("Trusted base: catch_unwind observing every panic (aborts would kill the driver: exit 2); the harness' own "
                   "Codec/Runtime/BroadcastHandler/Identity do not panic. Random exploration is a sample of the input space; "
                   "alloc-related aborts are out of scope as the property says."),
    "technique": "TLA+ spec + TLC (MC_Node invariant NoPanic on the assertion state) + random/junk-byte histories under catch_unwind in debug and release builds, validated as traces; exhaustive Config constructor sweep",
}


# ------------------------------------------------------------------------------------------------
# cluster-level model checking (MC_Cluster): exhaustive for 2 and 3 instances on the coarse time grid

def cluster_mc(cfgs):
    out = []
    for name, what, tiers in cfgs:
        out.append({"module": "MC_Cluster", "cfg": "MC_Cluster_%s.cfg" % name, "workers": 8, "timeout": 3000,
                    "what": what, "tiers": tiers})
    return out


BOTH = ("quick", "thorough")
PROPS["C02"]["level"] = "model_checking"
PROPS["C02"]["mc"] = cluster_mc([
    ("c02_n2", "exhaustive: 2 instances, every interleaving, horizon = the discovery bound", BOTH),
    ("c02_n3", "exhaustive: 3 instances, every interleaving and target choice, horizon = the discovery bound", BOTH),
])
# with periodic gossip and announce on the interleavings explode (8*10^6 states at depth 28 without finishing): random walks
PROPS["C02"]["mc"].append({"module": "MC_Cluster", "cfg": "MC_Cluster_c02_n3g.cfg", "workers": 8, "tiers": ("thorough",),
                           "simulate": "-simulate num=400 -depth 900", "timeout": 2400,
                           "what": "random walks: 3 instances, max_transmissions 1, periodic gossip and announce on"})
PROPS["C03"]["level"] = "model_checking"
PROPS["C03"]["mc"] = cluster_mc([
    ("c03_n2", "exhaustive: 2 instances, crash or leave of either at every reachable state of the formed cluster", BOTH),
    ("c03_n3", "exhaustive: 3 instances, crash or leave of any one at every reachable state of the formed cluster", ("thorough",)),
])
PROPS["C04"]["level"] = "model_checking"
PROPS["C04"]["mc"] = cluster_mc([
    ("c04_n2", "exhaustive: 2 instances, notify_down_members on, any one datagram lost at any reachable state", BOTH),
    ("c04_n3", "exhaustive: 3 instances, renewable identities, notify_down_members on, any one datagram lost", ("thorough",)),
])
PROPS["C18"]["level"] = "model_checking"
PROPS["C18"]["mc"] = cluster_mc([
    ("c18_n2", "exhaustive + liveness: 2 non-renewable instances in all 5x5 mutual-knowledge x defunct x pending-suspicion states, "
               "one datagram of every kind injected, every delivery order; Terminates under weak fairness", BOTH),
    ("c18_n2r", "as above with renewable identities", ("thorough",)),
    ("c18_n2l", "as above with identities whose renew() yields an identity that loses the conflict", ("thorough",)),
    ("c18_n2c", "as above with identities whose renew() cycles through 4 generations (wins, then wraps around and loses)", ("thorough",)),
])
for k, extra in (("C02", "TLC first checks the same monitor exhaustively on MC_Cluster (2 and 3 FocaNode instances, network, timers, coarse "
                         "time grid with every same-tick interleaving) up to the discovery bound. "),
                 ("C03", "TLC first checks the same monitor exhaustively on MC_Cluster for 2 (and 3) instances with Crash/Leave enabled at "
                         "every reachable state of the formed cluster. "),
                 ("C04", "TLC first checks the same monitor exhaustively on MC_Cluster for 2 (and 3) instances with one Drop of any datagram "
                         "at any reachable state. "),
                 ("C18", "TLC first checks, on MC_Cluster with timers held, all mutual-knowledge initial states of 2 instances x every initial "
                         "datagram kind x every delivery order: the per-delivery bound as invariant and termination as a liveness property "
                         "(no state constraint). ")):
    TEXT[k]["level_text"] = extra + TEXT[k]["level_text"]
    TEXT[k]["technique"] = "TLA+ spec + TLC exhaustive on MC_Cluster (2-3 instances) + " + TEXT[k]["technique"]


# wrap-around of the u8 probe number and timer token (c14 driver, every 40th set) also serves C06 and C13
for _p in ("C06", "C13"):
    for _t, _n in (("quick", "48"), ("thorough", "200")):
        PROPS[_p]["drivers"][_t].append({"args": ["c14", "--sets", _n, "--nmax", "4"], "shards": 1})

# cluster runs in a debug-assertion build also serve C06 (panics are reported by Trace_Cluster)
PROPS["C06"]["drivers"]["quick"] += [cl("c04", [], 2), cl("c02", ["--runs", "40", "--nmax", "8"], 1)]
PROPS["C06"]["drivers"]["thorough"] += [cl("c04", ["--thorough", "--maxruns", "1500"], 3), cl("c02", ["--runs", "200", "--nmax", "12"], 3)]


# long histories across the wrap-around of the u8 timer token at every epoch-starting site (going idle, reset, defunct):
# overflow panics (C06), stale-versus-current epochs (C13, C11) and identity renewals many times over (C10)
for _p, _mons in (("C06", None), ("C13", None), ("C10", None), ("C11", None)):
    PROPS[_p]["drivers"]["quick"].append({"args": ["wrap", "--runs", "6", "--steps", "2500"], "shards": 1})
    PROPS[_p]["drivers"]["thorough"].append({"args": ["wrap", "--runs", "12", "--steps", "2500"], "shards": 3})
PROPS["C06"].setdefault("goals", {}).update({"cov_wrap_going_idle": {"quick": 1, "thorough": 1}, "cov_wrap_reset": {"quick": 1, "thorough": 1},
                                             "cov_wrap_defunct": {"quick": 1, "thorough": 1}})


# C05 on the specification: the exhaustive run of the partition/heal model (N=3) exceeds 1.5*10^7 states without
# finishing, so it is explored with TLC's random walks (every walk: form, cut {0}|{1,2}, mutual Down, heal at one of
# the instants of an announce period, converge); the level claimed stays "exploration"
PROPS["C05"]["mc"] = [
    {"module": "MC_Cluster", "cfg": "MC_Cluster_c05_n3.cfg", "workers": 8,
     "simulate": {"quick": "-simulate num=60 -depth 700", "thorough": "-simulate num=2500 -depth 700"},
     "timeout": {"quick": 600, "thorough": 3000},
     "what": "random walks (TLC -simulate) through partition {0}|{1,2}, mutual Down, heal, convergence; 3 renewable instances"},
]
TEXT["C05"]["level_text"] = ("TLC explores MC_Cluster in partition/heal mode (3 renewable FocaNode instances, announce-to-down on) by random "
                             "walks with the C05 monitor as invariant (the exhaustive run exceeds 1.5*10^7 states without finishing, so "
                             "no exhaustiveness is claimed). ") + TEXT["C05"]["level_text"]
TEXT["C05"]["technique"] = "TLA+ spec + TLC random walks on MC_Cluster (partition/heal) + " + TEXT["C05"]["technique"]

# the twin driver starts with Timer's own order (bound to the specification's TimerSeq), reported under C13
for _t in ("quick", "thorough"):
    PROPS["C13"]["drivers"][_t].append({"args": ["twin", "--runs", "4", "--steps", "100"], "shards": 1})

# the Backlog component alone, exhaustively (every legal outcome of fill for every amount of space)
PROPS["C15"]["mc"] = [{"module": "MC_C15", "cfg": "MC_C15.cfg", "workers": 8, "timeout": 1500,
                       "what": "exhaustive: Backlog (fill) - 3 keys, sizes {3,5}, max_transmissions 2, space 0..14, every history "
                               "of accept/fill to depth 6, EVERY legal outcome of each fill"}] + PROPS["C15"]["mc"]
PROPS["C16"]["mc"] = [{"module": "MC_C15", "cfg": "MC_C16.cfg", "workers": 8, "timeout": 1500,
                       "what": "exhaustive: Backlog (fill_with_len_prefix) - 3 keys, sizes {3,5}, max_transmissions 3, space 0..18, "
                               "every history of accept/fill to depth 5, every legal outcome of each fill"}] + PROPS["C16"]["mc"]


# specification -> implementation: behaviours generated by TLC from MC_Node (random walks with forged timers, depth 40)
# are replayed on a real instance and validated like any other trace
for _p in ("C06", "C07", "C08", "C09", "C10", "C11", "C12", "C13", "C15", "C16", "C17", "C19"):
    PROPS[_p]["scripts"] = {"cfg": "MC_Node_scripts.cfg", "num": {"quick": 40, "thorough": 400}, "depth": 41}


# the probe round, exhaustively: every interleaving of one probe round and what follows it (MC_Node scope "probe") is
# (a) model-checked with the property's monitor and (b) printed behaviour by behaviour and replayed on the real code
PROBE_WHAT = ("exhaustive: scope 'probe' of MC_Node - two members learnt, the probe timer fires, then EVERY sequence of "
              "pending timers (indirect probe, next probe, suspicion timeout) and round-related datagrams (Ack / ForwardedAck with "
              "current and stale probe numbers from either peer and for either origin, Ping, gossip suspecting / refuting / "
              "burying the probed member or suspecting the instance)")
for _p in ("C11", "C12", "C13"):
    PROPS[_p]["mc"] = PROPS[_p]["mc"] + [
        {"module": "MC_Node", "cfg": "MC_Node_probe.cfg", "workers": 8, "timeout": 900, "env": {"MC_MONSET": _p},
         "what": PROBE_WHAT + ", 3 free steps", "tiers": ("quick",)},
        {"module": "MC_Node", "cfg": "MC_Node_probe7.cfg", "workers": 12, "timeout": 2400, "env": {"MC_MONSET": _p},
         "what": PROBE_WHAT + ", 5 free steps", "tiers": ("thorough",)}]
    PROPS[_p]["scripts_exh"] = {"cfg": {"quick": "MC_Node_probe_scripts.cfg", "thorough": "MC_Node_probe_scripts6.cfg"},
                                "env": {"quick": {"MC_ONECFG": "1"}, "thorough": {}},
                                "shards": {"quick": 4, "thorough": 10}, "what": PROBE_WHAT}


for _p in ("C11", "C12", "C13"):
    TEXT[_p]["level_text"] += (" In addition the scope 'probe' of MC_Node - EVERY interleaving of one probe round and what follows "
                               "it (pending timers and round-related datagrams; 3 free steps quick, 5 thorough) - is model-checked "
                               "with the monitor and every one of its behaviours (5 888 quick) is replayed on the real code.")
    TEXT[_p]["technique"] += " + exhaustive probe-round scope replayed on the code"


# C04, second sentence ("any suspicion raised is refuted ... or absorbed by the indirect probe"): complete traces of
# 3-member clusters with every datagram of the window dropped are validated per node (conformance) with the probe
# monitor: a suspicion raised although an Ack / ForwardedAck of the round had been received is "not absorbed"
PROPS["C04"]["also_report"] = ["C12"]
PROPS["C04"]["drivers"]["quick"].append({"args": ["c04", "--full", "--maxruns", "60", "--nlist", "3"], "shards": 1, "monitors": ["C12"]})
PROPS["C04"]["drivers"]["thorough"].append({"args": ["c04", "--full", "--maxruns", "150", "--nlist", "3,4"], "shards": 3, "monitors": ["C12"]})


# C01, record level, for ALL incarnations and generations 0..65535 at once (symbolic, Apalache)
PROPS["C01"]["mc"].append({"kind": "apalache", "module": "ApaC01", "inv": "Laws", "timeout": 900,
                           "what": "Apalache, length-0 invariant over all records m,u,w with g,inc in 0..65535: monotone, join, "
                                   "commutation, idempotence, transitivity and totality of the precedence order"})
TEXT["C01"]["level_text"] += (" The record-level laws (apply = join, monotone, commutative, idempotent; the order is total and transitive) "
                              "are additionally discharged by Apalache for ALL generations and incarnations in 0..65535 at once "
                              "(spec/ApaC01.tla, symbolic).")
TEXT["C01"]["technique"] += " + Apalache (record-level laws over the full u16 range)"

# complete (non-lite) traces of the fault drivers: per-node one-step conformance under crash / leave / partition / renewal
PROPS["C03"]["drivers"]["quick"].append(cl_full("c03", ["--maxruns", "150"], 1))
PROPS["C03"]["drivers"]["thorough"].append(cl_full("c03", ["--maxruns", "600"], 2))
PROPS["C05"]["drivers"]["quick"].append(cl_full("c05", ["--maxruns", "24"], 1))
PROPS["C05"]["drivers"]["thorough"].append(cl_full("c05", ["--maxruns", "80"], 3))

# C11: the exhaustive case table on the specification, and the same table on the real code
PROPS["C11"]["mc"] = [{"module": "MC_C11", "cfg": "MC_C11.cfg", "workers": 4, "timeout": 900,
                       "what": "exhaustive case table: record absent/Alive/Suspect/Down x incarnation below/equal/above x generation "
                               "older/same/newer x token current/stale x notify_down_members x connected/idle/defunct x last member or not; "
                               "the statement's iff on HandleTimer's result; Down final under every later update / forget-timer"}] + PROPS["C11"]["mc"]
for _t in ("quick", "thorough"):
    PROPS["C11"]["drivers"][_t].append({"args": ["c11"], "shards": 1, "seed_fixed": 1})

# C07: send_message exhaustively over the packet size (byte by byte), kinds, backlogs and codecs
PROPS["C07"]["mc"] = [{"module": "MC_C07", "cfg": "MC_C07.cfg", "workers": 8, "timeout": 1500,
                       "what": "exhaustive: every max_packet_size 9..64, 11 kinds, known/unknown destination, fixed/variable identities, "
                               "0/2/4 members, 3 update-backlog patterns, 4 custom backlogs: bounded, exact sections, legal feed/fill, "
                               "accepted by the receiver grammar; Err:Encode iff the header does not fit"}] + PROPS["C07"]["mc"]
