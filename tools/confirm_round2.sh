#!/bin/bash
# confirm_round2.sh [prop ...]: confirms the second round of sub-agent changes (/tmp/mut2/<prop>/OUT/{A,B}.*) as <prop>-C / <prop>-D
props="$@"; [ -z "$props" ] && props=$(ls -d /tmp/mut2/C*/OUT | sed 's#/tmp/mut2/##; s#/OUT##')
for p in $props; do echo "$p A C"; echo "$p B D"; done | xargs -P ${CONF_PAR:-3} -L 1 bash -c '[ -f /tmp/mut2/$0/OUT/$1.patch.diff ] && /verif/tools/confirm_mutant.sh $0 $1 /tmp/mut2 $2 2>&1 | tail -2' >> /verif/work/confirm2.txt
