#!/bin/bash
# mutants_all.sh "<name>:<prop>[,<prop>...] ..."  : evaluates seeded changes MUT_JOBS (default 3) at a time,
# appends one line per (change, check) to work/mutants.summary
mkdir -p /verif/work
run_one() { n=${1%%:*}; p=${1##*:}; MUT_PAR=${MUT_PAR:-3} /verif/tools/mutant_eval.sh $n ${p//,/ } 2>&1 | grep "^MUTANT\|patch does not" >> /verif/work/mutants.summary; }
export -f run_one
echo "$@" | tr ' ' '\n' | xargs -P ${MUT_JOBS:-3} -I{} bash -c 'run_one {}'
