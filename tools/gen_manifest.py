#!/usr/bin/env python3
"""Writes /verif/MANIFEST.json from tools/props.py (single source of truth for what is claimed)."""
import json
import os
import sys

ROOT = os.path.dirname(os.path.dirname(os.path.abspath(__file__)))
sys.path.insert(0, os.path.join(ROOT, "tools"))
from props import PROPS, TEXT, NOT_APPLICABLE  # noqa: E402

ids = ["C%02d" % i for i in range(1, 21)]
checks = []
for pid in ids:
    if pid not in PROPS:
        continue
    P = PROPS[pid]
    T = TEXT[pid]
    checks.append({
        "property_id": pid,
        "quick_cmd": "python3 tools/check.py %s --tier quick" % pid,
        "thorough_cmd": "python3 tools/check.py %s --tier thorough" % pid,
        "evidence_file": "/verif/evidence/%s.json" % pid,
        "replay_cmd_template": "python3 tools/check.py %s --replay {path}" % pid,
        "engine": "tla-spec+trace-validation",
        "level_claimed": {"category": P["level"], "text": T["level_text"], "design_ref": T.get("design_ref", "DESIGN.md section 7 / " + pid)},
        "level_note": T["level_note"],
        "technique": T["technique"],
    })

na = []
for pid in ids:
    if pid in PROPS:
        continue
    na.append({"property_id": pid, "reason": NOT_APPLICABLE.get(pid, "check not built yet (see DESIGN.md section 12)")})

hooks_commits = ["4c282a7"]
m = {
    "version": 1,
    "setup_cmd": "cd /verif/harness && cargo build --offline && cargo build --offline --release && cd /verif && python3 tools/selftest.py --quick",
    "hooks": {
        "guard": "foca_verif",
        "enable": "rustc --cfg foca_verif, set through rustflags in /verif/harness/.cargo/config.toml (the harness depends on /repo by path)",
        "baseline_off_cmd": "cd /repo && cargo test --workspace --no-fail-fast --offline",
        "source_commits": hooks_commits,
        "add_only": True,
    },
    "engines": [
        {"name": "tla-spec+trace-validation", "path": "/verif/spec", "serves_properties": sorted(PROPS.keys()),
         "kind_free_text": "explicit TLA+ specification of foca (FocaNode = transcription of lib.rs; Members, Backlog, Probe, "
                           "RoundRobin components; Cluster environment) with one TLA+ monitor module per property; TLC checks "
                           "the monitors on the specification (exhaustive small scope + simulation) and validates ndjson traces "
                           "of the real code (harness/, Rust, path dependency on /repo) against it: one-step conformance with "
                           "Step(pre,input,tape) plus the monitors at every recorded step"},
    ],
    "checks": checks,
    "not_applicable": na,
    "notes": "tools/check.py <id> --tier quick|thorough; known findings in known_findings.json; seeded changes in seeded/; see DESIGN.md",
}
json.dump(m, open(os.path.join(ROOT, "MANIFEST.json"), "w"), indent=1)
print("MANIFEST.json: %d checks, %d not_applicable" % (len(checks), len(na)))
