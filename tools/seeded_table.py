#!/usr/bin/env python3
"""prints the markdown table 'which check catches which seeded change' from seeded/*/meta.json"""
import glob, json, os
ROOT = os.path.dirname(os.path.dirname(os.path.abspath(__file__)))
print("| seeded change | what it changes (sub-agent's note, first line) | check | exit | violations | divergences | first clause reported |")
print("|---|---|---|---|---|---|---|")
for f in sorted(glob.glob(os.path.join(ROOT, "seeded", "C*-*", "meta.json"))):
    m = json.load(open(f))
    first = ""
    for l in m["what_it_needs_to_manifest"].splitlines():
        l = l.strip().lstrip("#").strip()
        if len(l) > 20:
            first = l[:150].replace("|", "/")
            break
    if not m["evaluated"]["results"]:
        print("| %s | %s | - | not evaluated | | | |" % (m["name"], first))
    for r in m["evaluated"]["results"]:
        print("| %s | %s | %s | %d | %d | %d | %s |" % (m["name"], first, r["check"], r["exit"], r["violations"],
                                                       r["conformance_divergences"], r["first_clause"]))
