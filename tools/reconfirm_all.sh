#!/bin/bash
# reconfirm_all.sh [name ...]: re-confirms the kept seeded changes against /repo's CURRENT HEAD (fixes committed after
# a change was first confirmed may conflict with it): patch applies, 79 tests pass with it, the demonstration fails
# with it and passes without it.  Scratch worktrees under /tmp, removed as soon as done.  Output: work/reconfirm.txt
names="$@"; [ -z "$names" ] && names=$(ls /verif/seeded | grep -E '^C[0-9]+-[AB]$')
one() {
  N=$1; D=/verif/seeded/$N; W=/tmp/reconf-$N
  rm -rf $W; git -C /repo worktree add -q --detach $W HEAD 2>/dev/null || { echo "$N WORKTREE-ERROR"; return; }
  cp /repo/Cargo.lock $W/; cd $W
  if ! git apply --check $D/patch.diff 2>/dev/null; then echo "$N PATCH-DOES-NOT-APPLY"; cd /; git -C /repo worktree remove --force $W; return; fi
  git apply $D/patch.diff
  t1=$(cargo test --offline 2>&1 | grep -E "^test result" | head -1)
  git apply $D/demo.diff 2>/dev/null || echo "$N DEMO-DOES-NOT-APPLY-ON-PATCH"
  t2=$(cargo test --offline 2>&1 | grep -E "^test result" | head -1)
  git checkout -q -- . ; git apply $D/demo.diff 2>/dev/null || echo "$N DEMO-DOES-NOT-APPLY-ON-CLEAN"
  t3=$(cargo test --offline 2>&1 | grep -E "^test result" | head -1)
  ok=NOT-CONFIRMED
  echo "$t1" | grep -q "79 passed; 0 failed" && echo "$t2" | grep -q "79 passed; 1 failed" && echo "$t3" | grep -q "80 passed; 0 failed" && ok=CONFIRMED
  echo "$N $ok | patched: $t1 | patched+demo: $t2 | clean+demo: $t3"
  cd /; git -C /repo worktree remove --force $W
}
export -f one
git -C /repo worktree prune
echo "# against /repo HEAD $(git -C /repo rev-parse --short HEAD)" > /verif/work/reconfirm.txt
echo $names | tr ' ' '\n' | xargs -P ${RECONF_PAR:-3} -I{} bash -c 'one {}' >> /verif/work/reconfirm.txt 2>&1
