#!/bin/bash
# usage: tv.sh <Spec> <trace.ndjson> [metadir]   -- runs TLC trace validation, prints TLC output
SPEC=$1; TRACE=$2; R=${VERIF_ROOT:-/verif}; MD=${3:-$R/work/tlc.$$}
cd $R/spec
TRACE=$TRACE JAVA_TOOL_OPTIONS="-Xss1g -XX:+UseParallelGC" timeout ${TV_TIMEOUT:-1200} tlc -workers 1 -metadir $MD -cleanup -noGenerateSpecTE -config $SPEC.cfg $SPEC.tla 2>&1 | grep -v -E "^(Semantic processing|Linting|Parsing file|Picked up|State [0-9]+:|[0-9]+\. Line)" 
rc=${PIPESTATUS[0]}
rm -rf $MD
exit $rc
