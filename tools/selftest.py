#!/usr/bin/env python3
"""selftest.py [--quick]: demonstrates that the specification is bound to the code.

 1. records a short trace of the real code and validates it (must conform, monitors quiet)
 2. corrupts one recorded field (an incarnation in a hook snapshot) -> conformance must be lost at that event
 3. deletes one event -> conformance must be lost
Exit 0 when all three behave as expected."""
import json
import os
import subprocess
import sys

ROOT = os.path.dirname(os.path.dirname(os.path.abspath(__file__)))
sys.path.insert(0, os.path.join(ROOT, "tools"))
import check  # noqa: E402

work = os.path.join(ROOT, "work", "selftest")
os.makedirs(work, exist_ok=True)
fv = os.path.join(ROOT, "harness", "target", "debug", "fv")
trace = os.path.join(work, "base.ndjson")
subprocess.run([fv, "rnd", "--runs", "3", "--steps", "120", "--seed", "77", "--out", trace], check=True,
               stdout=subprocess.DEVNULL)


def validate(path):
    r = check.validate_trace({"trace": path, "spec": "Trace_Node", "cfg": "Trace_Node.cfg",
                              "env": {"MON_C08": "1", "MON_C09": "1"}, "workdir": work, "timeout": 600})
    if not r["ok"]:
        print(r["tail"])
        sys.exit(2)
    return r["res"]


ok = True
res = validate(trace)
print("selftest 1: base trace: %d calls, %d divergences, %d violations" % (res["conf"]["calls"], res["conf"]["ndiv"], res["viol"]["n"]))
ok &= res["conf"]["ndiv"] == 0 and res["viol"]["n"] == 0 and res["conf"]["calls"] > 100

lines = open(trace).read().splitlines()
# corrupt: bump the hook incarnation of one mid-trace call event
idx = next(i for i in range(60, len(lines)) if '"ev":"call"' in lines[i])
e = json.loads(lines[idx])
e["hook"]["inc"] = e["hook"]["inc"] + 1
bad = list(lines)
bad[idx] = json.dumps(e)
p2 = os.path.join(work, "corrupt.ndjson")
open(p2, "w").write("\n".join(bad) + "\n")
res = validate(p2)
first = res["conf"]["divs"][0]["line"] if res["conf"]["divs"] else None
print("selftest 2: corrupted incarnation at line %d -> first divergence at line %s" % (idx + 1, first))
ok &= first == idx + 1

# delete an event that changed state
idx2 = next(i for i in range(30, len(lines)) if '"ev":"call"' in lines[i] and '"MemberUp"' in lines[i])
p3 = os.path.join(work, "deleted.ndjson")
open(p3, "w").write("\n".join(lines[:idx2] + lines[idx2 + 1:]) + "\n")
res = validate(p3)
print("selftest 3: deleted event at line %d -> %d divergences" % (idx2 + 1, res["conf"]["ndiv"]))
ok &= res["conf"]["ndiv"] > 0


# ---------------------------------------------------------------------------------------------
# --model: the specification without one of the "fix:" commits is the pinned tree's behaviour;
# TLC must find each of those defects in the MODEL too (non-vacuity of the model-level checks)
if "--model" in sys.argv:
    import re
    ALL = ["654ac52", "3f5c312", "66b62cc", "7418747", "f6702a7", "73fde95", "ea3a2f4", "6ca130a", "a23716c"]
    cases = [("66b62cc", "MC_Node", "MC_Node_simforge.cfg", "C06", "-simulate num=20000 -depth 61", "Invariant NoPanic is violated"),
             ("654ac52", "MC_Node", "MC_Node_simforge.cfg", "C11", "-simulate num=60000 -depth 61", "Invariant MonitorsQuiet is violated"),
             ("3f5c312", "MC_Node", "MC_Node_simforge.cfg", "C19", "-simulate num=20000 -depth 61", "Invariant MonitorsQuiet is violated"),
             ("7418747", "MC_Cluster", "MC_Cluster_c18_n2.cfg", None, None, "Temporal property Terminates was violated")]
    for sha, module, cfg, monset, sim, expect in cases:
        t = open(os.path.join(ROOT, "spec", cfg)).read()
        t = re.sub(r"Fixes = \{[^}]*\}", "Fixes = {" + ", ".join('"%s"' % f for f in ALL if f != sha) + "}", t)
        tmp = "_selftest_nofix_%s.cfg" % sha
        open(os.path.join(ROOT, "spec", tmp), "w").write(t)
        try:
            rc, out = check.tlc(module, tmp, work, extra_env={"MC_MONSET": monset} if monset else None, workers=6,
                                timeout=1200, simulate=sim, xmx="8g")
        finally:
            os.remove(os.path.join(ROOT, "spec", tmp))
        found = expect in out
        print("selftest model: spec without fix %s -> %s" % (sha, "TLC reports: " + expect if found else "NOT FOUND"))
        ok &= found

import shutil
shutil.rmtree(work, ignore_errors=True)
print("selftest:", "OK" if ok else "FAILED")
sys.exit(0 if ok else 1)
