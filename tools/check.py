#!/usr/bin/env python3
"""check.py <property-id> [--tier quick|thorough] [--replay FILE]

Decides one property of /verif/properties.jsonl on /repo's current working tree:

  (B) build the harness against /repo (path dependency, --cfg foca_verif)
  (M) TLC model-checks the property's monitor on the specification (MC_* configs)
  (G/H) harness drivers execute the real code and write ndjson traces
  (V) TLC validates every trace against the specification: one-step conformance
      with FocaNode!Step plus the property's monitor (its TLA+ formula) at every step

Exit 0: property held on everything explored.  Exit 1: a line
"VIOLATION property=<id> replay=<path>".  Exit 2: tool error / timeout.
Known findings (known_findings.json, status open) are printed as KNOWN-FINDING lines
and do not fail the check.  Evidence goes to /verif/evidence/<id>.json.
"""
import argparse
import concurrent.futures as cf
import hashlib
import json
import os
import re
import shutil
import subprocess
import sys
import time

ROOT = os.path.dirname(os.path.dirname(os.path.abspath(__file__)))
SPEC = os.path.join(ROOT, "spec")
HARNESS = os.path.join(ROOT, "harness")
sys.path.insert(0, os.path.join(ROOT, "tools"))
from props import PROPS  # noqa: E402

T0 = time.time()


def log(*a):
    print(*a, flush=True)


def die(msg, code=2):
    log("ERROR:", msg)
    sys.exit(code)


def run(cmd, timeout, cwd=None, env=None):
    e = dict(os.environ)
    if env:
        e.update(env)
    try:
        p = subprocess.run(cmd, cwd=cwd, env=e, timeout=timeout, stdout=subprocess.PIPE,
                           stderr=subprocess.STDOUT, text=True, errors="replace")
        return p.returncode, p.stdout
    except subprocess.TimeoutExpired as ex:
        out = ex.stdout if isinstance(ex.stdout, str) else (ex.stdout or b"").decode("utf8", "replace")
        return 124, out + "\nTIMEOUT"


def build_harness(profiles):
    bins = {}
    for prof in profiles:
        cmd = ["cargo", "build", "--offline"] + (["--release"] if prof == "release" else [])
        rc, out = run(cmd, 1500, cwd=HARNESS)
        if rc != 0:
            log(out[-4000:])
            die("harness build failed (does /repo still compile with --cfg foca_verif?)")
        bins[prof] = os.path.join(HARNESS, "target", "release" if prof == "release" else "debug", "fv")
    return bins


JAVA = {"JAVA_TOOL_OPTIONS": "-Xss1g -XX:+UseParallelGC"}


def tlc(module, cfg, workdir, extra_env=None, workers=1, timeout=1200, simulate=None, xmx="4g"):
    md = os.path.join(workdir, "tlc-%s-%d-%d" % (module, os.getpid(), int(time.time() * 1000) % 10 ** 9))
    env = dict(JAVA)
    env["JAVA_TOOL_OPTIONS"] += " -Xmx" + xmx
    if extra_env:
        env.update(extra_env)
    cmd = ["tlc", "-workers", str(workers), "-metadir", md, "-cleanup", "-noGenerateSpecTE",
           "-config", cfg, module + ".tla"]
    if simulate:
        cmd[1:1] = simulate.split()
    rc, out = run(cmd, timeout, cwd=SPEC, env=env)
    shutil.rmtree(md, ignore_errors=True)
    return rc, out


def parse_tlc_stats(out):
    m = re.search(r"(\d+) states generated, (\d+) distinct states found", out)
    st = {"generated": int(m.group(1)), "distinct": int(m.group(2))} if m else {}
    if not m:
        # simulation mode
        m2 = re.search(r"The number of states generated: (\d+)", out)
        m3 = re.findall(r"(\d+) states checked, (\d+) traces generated", out)
        if m2:
            st = {"generated": int(m2.group(1)), "distinct": int(m2.group(1)), "mode": "simulate"}
        if m3:
            st["generated"] = max(st.get("generated", 0), int(m3[-1][0]))
            st["distinct"] = st["generated"]
            st["traces"] = int(m3[-1][1])
            st["mode"] = "simulate"
    m = re.search(r"depth of the complete state graph search is (\d+)", out)
    if m:
        st["depth"] = int(m.group(1))
    return st


def result_line(out):
    """the RESULT json printed by Trace_* specs"""
    res = None
    for line in out.splitlines():
        m = re.match(r'<<"RESULT", "(.*)">>\s*$', line)
        if m:
            s = m.group(1).encode("utf8").decode("unicode_escape")
            res = json.loads(s)
    m = re.search(r'<<"CONSUMED", (\d+), (\d+)>>', out)
    consumed = (int(m.group(1)), int(m.group(2))) if m else None
    return res, consumed


def validate_trace(job):
    """job: dict(trace, spec, cfg, env, workdir, timeout) -> dict"""
    rc, out = tlc(job["spec"], job["cfg"], job["workdir"], extra_env=dict(job["env"], TRACE=job["trace"]),
                  timeout=job["timeout"], xmx="6g")
    res, consumed = result_line(out)
    ok = rc == 0 and res is not None and consumed is not None and consumed[0] == consumed[1]
    return {"trace": job["trace"], "rc": rc, "ok": ok, "res": res, "consumed": consumed,
            "tail": out[-3000:] if not ok else "", "stats": parse_tlc_stats(out)}


# situations (tags of spec/MonHits.tla) the validated traces of a node-level property are expected to contain
EXPECTED_SITUATIONS = {
    "C09": ["C09:datagram-from-Down-or-superseded-sender", "C09:identity-replaced"],
    "C10": ["C10:incarnation-bumped", "C10:identity-changed", "C10:incarnation-at-MAX-1-or-MAX",
            "C10:suspicion-about-self-in-input", "C10:identity-moved-to-another-address"],
    "C11": ["C11:timeout-takes-effect", "C11:stale-epoch-timeout", "C11:timeout-cancelled-(refuted/renewed/already-Down)",
            "C11:Down-record-forgotten"],
    "C12": ["C12:round-closed-with-suspicion", "C12:round-closed-with-evidence", "C12:indirect-requests-sent",
            "C12:relay-naming-self-rejected"],
    "C13": ["C13:stale-epoch-timer-fired", "C13:incomplete-probe-cycle", "C13:epoch-changed"],
    "C15": ["C15:update-accepted-for-broadcast", "C15:update-left-after-max_transmissions", "C15:update-superseded",
            "C15:datagram-with-entries-left-out", "C10:identity-moved-to-another-address"],
    "C16": ["C16:item-accepted", "C16:handler-error", "C16:items-on-the-wire", "C16:broadcast()-sent", "C16:item-invalidated"],
    "C19": ["C19:relay-towards-peer-named-target", "C19:own-address-record-in-table"],
    "C07": ["send:Ping", "send:Ack", "send:PingReq", "send:IndirectPing", "send:IndirectAck", "send:ForwardedAck",
            "send:Announce", "send:Feed", "send:Gossip", "send:Broadcast", "send:TurnUndead"],
    "C08": ["notify:MemberUp", "notify:MemberDown", "notify:Rename", "notify:Active", "notify:Idle", "notify:Defunct",
            "notify:Rejoin"],
}


def load_known():
    p = os.path.join(ROOT, "known_findings.json")
    if not os.path.exists(p):
        return []
    return json.load(open(p)).get("findings", [])


def matches_known(k, pid, clause, call, extra):
    if k.get("status") != "open" or k.get("property") != pid:
        return False
    m = k.get("match", {})
    if "clause" in m and m["clause"] != clause:
        return False
    if "call" in m and m["call"] != call:
        return False
    for key, val in m.get("extra", {}).items():
        if extra.get(key) != val:
            return False
    return True


def trace_excerpt(trace, line, run_no, before=40):
    """the events of the violating run up to the violating line"""
    lines = []
    with open(trace) as f:
        for i, l in enumerate(f, 1):
            if i > line:
                break
            lines.append((i, l))
    # back up to the reset event of that run
    start = 0
    for idx in range(len(lines) - 1, -1, -1):
        if '"ev":"reset"' in lines[idx][1] or '"ev": "reset"' in lines[idx][1]:
            start = idx
            break
    sel = lines[start:]
    return [json.loads(l) for _, l in sel[-before:]], sel[0][0] if sel else 0


def main():
    ap = argparse.ArgumentParser()
    ap.add_argument("prop")
    ap.add_argument("--tier", default=os.environ.get("VERIF_TIER", "quick"))
    ap.add_argument("--replay")
    ap.add_argument("--keep", action="store_true")
    a = ap.parse_args()
    pid = a.prop
    if pid not in PROPS:
        die("unknown or unclaimed property " + pid)
    P = PROPS[pid]
    tier = a.tier if a.tier in ("quick", "thorough") else "quick"
    seed = int(os.environ.get("VERIF_SEED", "20260922"))
    work = os.path.join(ROOT, "work", pid)
    shutil.rmtree(work, ignore_errors=True)
    os.makedirs(work, exist_ok=True)
    os.makedirs(os.path.join(ROOT, "evidence"), exist_ok=True)
    os.makedirs(os.path.join(ROOT, "replays"), exist_ok=True)

    replay = None
    if a.replay:
        replay = json.load(open(a.replay))
        if replay.get("property") != pid:
            die("replay file is for property %s" % replay.get("property"))

    # ---------------------------------------------------------------- (B)
    profiles = P.get("profiles", ["dev"])
    bins = build_harness(profiles)
    log("[%s] harness built (%.0fs)" % (pid, time.time() - T0))

    ev = {"mc": [], "drivers": [], "traces": 0, "events": 0, "calls": 0, "divergences": 0,
          "panics": 0, "tlc_trace_states": 0}
    violations = []   # dicts: clause, call, trace, line, run, driver, extra
    tool_errors = []
    samples = []

    # ---------------------------------------------------------------- (M)
    mc_states = 0
    mc_trans = 0
    # VERIF_SKIP_MC=1 (used by tools/mutant_eval.sh only): a seeded change of the Rust code cannot affect the
    # model-only stage, so evaluating it skips that stage; the registered commands never set it
    if not replay and not os.environ.get("VERIF_SKIP_MC"):
        for mc in P.get("mc", []):
            if tier not in mc.get("tiers", ("quick", "thorough")):
                continue
            t1 = time.time()
            if mc.get("kind") == "apalache":
                # symbolic check of a length-0 invariant (all values of the variables at once) with Apalache
                odir = os.path.join(work, "apalache-out")
                rc, out = run(["apalache-mc", "check", "--length=0", "--inv=" + mc["inv"], "--out-dir=" + odir,
                               os.path.join(SPEC, mc["module"] + ".tla")], mc.get("timeout", 900), cwd=work)
                shutil.rmtree(odir, ignore_errors=True)
                okk = "The outcome is: NoError" in out
                ev["mc"].append({"module": mc["module"], "engine": "apalache", "inv": mc["inv"], "rc": rc, "ok": okk,
                                 "wall_s": round(time.time() - t1, 1), "what": mc.get("what", "")})
                log("[%s] apalache %s inv=%s: %s in %.0fs" % (pid, mc["module"], mc["inv"], "NoError" if okk else "FAILED", time.time() - t1))
                if not okk:
                    tool_errors.append("apalache check of %s failed or found a counterexample (model-level)\n%s" % (mc["module"], out[-1500:]))
                continue
            tmo = mc.get("timeout", {"quick": 600, "thorough": 3000})[tier] if isinstance(mc.get("timeout"), dict) else mc.get("timeout", 900)
            simarg = mc.get("simulate", {}).get(tier) if isinstance(mc.get("simulate"), dict) else mc.get("simulate")
            if simarg:
                # TLC's simulation workers share one random stream for RandomElement (they all generate the same
                # behaviours), so random walks are run as independent single-worker processes with distinct seeds
                procs = mc.get("workers", 8)

                def one(k):
                    return tlc(mc["module"], mc["cfg"], work, workers=1, timeout=tmo,
                               simulate=simarg + " -seed %d" % ((seed * 7919 + k * 104729 + 17) % (2 ** 31)),
                               xmx="2g", extra_env=mc.get("env"))
                with cf.ThreadPoolExecutor(max_workers=procs) as ex:
                    outs = list(ex.map(one, range(procs)))
                rc = max(r for r, _ in outs)
                out = "\n".join(o for _, o in outs)
                st = {"generated": 0, "distinct": 0, "traces": 0, "mode": "simulate", "processes": procs}
                for _, o in outs:
                    s1 = parse_tlc_stats(o)
                    st["generated"] += s1.get("generated", 0)
                    st["distinct"] += s1.get("distinct", 0)
                    st["traces"] += s1.get("traces", 0)
            else:
                rc, out = tlc(mc["module"], mc["cfg"], work, workers=mc.get("workers", 8), timeout=tmo,
                              xmx=mc.get("xmx", "8g"), extra_env=mc.get("env"))
                st = parse_tlc_stats(out)
            violated = "is violated" in out or "Error: " in out
            timed_out = rc == 124
            sim = bool(mc.get("simulate"))
            if sim and timed_out and not violated:
                # simulation runs until the outer timeout: that is the normal way to end it
                timed_out = False
                rc = 0
            rec = {"module": mc["module"], "cfg": mc["cfg"], "rc": rc, "stats": st,
                   "wall_s": round(time.time() - t1, 1), "what": mc.get("what", "")}
            ev["mc"].append(rec)
            log("[%s] model check %s/%s: %s in %.0fs" % (pid, mc["module"], mc["cfg"], st, time.time() - t1))
            if violated:
                # a property violated in the MODEL: the model transcribes the code, so either the code has
                # the defect (confirmed by the implementation drivers below) or the model is wrong.
                tail = out[-6000:]
                open(os.path.join(work, "mc-violation-%s.txt" % mc["cfg"]), "w").write(out)
                rec["violated"] = True
                rec["tail"] = tail[-1500:]
                tool_errors.append("model-level violation in %s (see work/%s); not confirmed on the implementation"
                                   % (mc["cfg"], pid))
                log(tail)
            elif timed_out or rc != 0:
                tool_errors.append("TLC failed on %s rc=%s" % (mc["cfg"], rc))
                log(out[-3000:])
            mc_states += st.get("distinct", 0)
            mc_trans += st.get("generated", 0)

    # ---------------------------------------------------------------- (G) behaviours generated by the model
    gen_drivers = []
    if P.get("scripts") and not replay:
        sc = P["scripts"]
        t1 = time.time()
        procs = 8
        num = sc["num"][tier]

        def gen(k):
            return tlc("MC_Node", sc["cfg"], work, workers=1, timeout=900, xmx="2g", extra_env={"MC_SCRIPTS": "1"},
                       simulate="-simulate num=%d -depth %d -seed %d" % (num, sc.get("depth", 41), (seed * 31 + k * 7919 + 5) % (2 ** 31)))
        with cf.ThreadPoolExecutor(max_workers=procs) as ex:
            outs = list(ex.map(gen, range(procs)))
        spath = os.path.join(work, "scripts.ndjson")
        nscripts = 0
        with open(spath, "w") as f:
            for rc, out in outs:
                if "is violated" in out or rc not in (0,):
                    tool_errors.append("script generation: TLC rc=%s %s" % (rc, out[-800:]))
                for line in out.splitlines():
                    m = re.match(r'<<"SCRIPT", "(.*)">>\s*$', line)
                    if m:
                        f.write(m.group(1).encode("utf8").decode("unicode_escape") + "\n")
                        nscripts += 1
        ev["model_scripts"] = nscripts
        log("[%s] %d behaviours generated by TLC from MC_Node for replay on the real code (%.0fs)" % (pid, nscripts, time.time() - t1))
        if nscripts:
            gen_drivers.append({"args": ["replay", "--scripts", spath], "shards": 1})
    if P.get("scripts_exh") and not replay:
        # EVERY behaviour of an exhaustive scope of MC_Node (not a sample): printed by TLC, replayed on the real code
        sx = P["scripts_exh"]
        t1 = time.time()
        xenv = {"MC_SCRIPTS": "1"}
        xenv.update(sx.get("env", {}).get(tier, {}))
        rc, out = tlc("MC_Node", sx["cfg"][tier], work, workers=sx.get("workers", 6), timeout=sx.get("timeout", 1500), xmx="6g", extra_env=xenv)
        if "is violated" in out or rc != 0:
            tool_errors.append("exhaustive script generation: TLC rc=%s %s" % (rc, out[-800:]))
        nshards = sx.get("shards", {}).get(tier, 4)
        files = [open(os.path.join(work, "scripts-exh-%d.ndjson" % k), "w") for k in range(nshards)]
        nx = 0
        for line in out.splitlines():
            m = re.match(r'<<"SCRIPT", "(.*)">>\s*$', line)
            if m:
                files[nx % nshards].write(m.group(1).encode("utf8").decode("unicode_escape") + "\n")
                nx += 1
        for f in files:
            f.close()
        ev["model_scripts_exhaustive"] = nx
        stx = parse_tlc_stats(out)
        ev["mc"].append({"module": "MC_Node", "cfg": sx["cfg"][tier], "rc": rc, "stats": stx, "wall_s": round(time.time() - t1, 1),
                         "what": sx.get("what", "") + " - every behaviour printed as a script (%d) and replayed on the real code" % nx})
        log("[%s] %d behaviours (ALL of scope %s) generated by TLC for replay on the real code (%.0fs)" % (pid, nx, sx["cfg"][tier], time.time() - t1))
        if nx:
            for k in range(nshards):
                gen_drivers.append({"args": ["replay", "--scripts", os.path.join(work, "scripts-exh-%d.ndjson" % k)], "shards": 1})

    # ---------------------------------------------------------------- (H) drivers
    jobs = []
    if replay and replay.get("script") is not None:
        spath = os.path.join(work, "scripts.ndjson")
        with open(spath, "w") as sf:
            sf.write(json.dumps(replay["script"]) + "\n")
        replay["driver"] = dict(replay["driver"], args=["replay", "--scripts", spath])
    drivers = (P["drivers"][tier] + gen_drivers) if not replay else [replay["driver"]]
    for di, d in enumerate(drivers):
        shards = d.get("shards", 1) if not replay else 1
        for sh in range(shards):
            dseed = d.get("seed_fixed", None)
            if dseed is None:
                dseed = (seed * 1000003 + di * 7919 + sh * 104729) % (2 ** 31)
            if replay:
                dseed = replay["seed"]
            trace = os.path.join(work, "trace-%d-%d.ndjson" % (di, sh))
            prof = d.get("profile", "dev")
            cmd = [bins[prof]] + d["args"] + ["--seed", str(dseed), "--out", trace]
            jobs.append({"cmd": cmd, "trace": trace, "driver": d, "seed": dseed, "di": di, "sh": sh})

    def run_driver(j):
        rc, out = run(j["cmd"], j["driver"].get("timeout", 1500))
        return j, rc, out

    with cf.ThreadPoolExecutor(max_workers=8) as ex:
        dres = list(ex.map(run_driver, jobs))
    vjobs = []
    for j, rc, out in dres:
        if rc != 0:
            tool_errors.append("driver failed: %s rc=%s %s" % (" ".join(j["cmd"][1:4]), rc, out[-500:]))
            continue
        try:
            stats = json.loads(out.strip().splitlines()[-1])
        except Exception:
            stats = {}
        ev["events"] += stats.get("events", 0)
        ev["panics"] += stats.get("panics", 0)
        for k, v in stats.items():
            if k.startswith("cov_"):
                ev.setdefault("coverage_goals", {})
                ev["coverage_goals"][k] = ev["coverage_goals"].get(k, 0) + v
        ev["drivers"].append({"args": j["driver"]["args"], "seed": j["seed"], "stats": stats})
        env = {"MON_" + m: "1" for m in j["driver"].get("monitors", P["monitors"])}
        if not j["driver"].get("conformance", True):
            env["NOCONF"] = "1"
        vjobs.append({"trace": j["trace"], "spec": j["driver"].get("spec", "Trace_Node"),
                      "cfg": j["driver"].get("cfg", "Trace_Node.cfg"), "env": env, "workdir": work,
                      "timeout": 2400, "job": j})
    log("[%s] drivers done: %d traces, %d events (%.0fs)" % (pid, len(vjobs), ev["events"], time.time() - T0))

    # ---------------------------------------------------------------- (V)
    with cf.ThreadPoolExecutor(max_workers=int(os.environ.get("VERIF_TLC_PAR", "10"))) as ex:
        vres = list(ex.map(validate_trace, vjobs))
    for vj, r in zip(vjobs, vres):
        j = vj["job"]
        if not r["ok"]:
            tool_errors.append("trace validation failed for %s: rc=%s consumed=%s\n%s"
                               % (os.path.basename(r["trace"]), r["rc"], r["consumed"], r["tail"]))
            continue
        ev["traces"] += 1
        res = r["res"]
        ev["calls"] += res["conf"]["calls"]
        ev["divergences"] += res["conf"]["ndiv"]
        ev["tlc_trace_states"] += r["stats"].get("distinct", 0)
        for t, n in (res.get("hits") or {}).items():
            ev.setdefault("hits", {})
            ev["hits"][t] = ev["hits"].get(t, 0) + n
        for d in res["conf"]["divs"][:3]:
            log("CONFORMANCE-DIVERGENCE property=%s trace=%s event=%s call=%s fields=%s"
                % (pid, os.path.relpath(r["trace"], ROOT), d["line"], d["call"], ",".join(sorted(d["fields"]))))
        for v in res["viol"]["list"]:
            for prop, clauses in v["v"].items():
                if prop != pid and prop not in P.get("also_report", []):
                    continue
                for c in clauses:
                    violations.append({"clause": c, "call": v["call"], "line": v["line"], "run": v.get("run", 0),
                                       "trace": r["trace"], "job": j, "extra": v.get("extra", {})})
        if res["viol"]["n"] > len(res["viol"]["list"]):
            log("[%s] note: %d violating events in %s, first %d listed"
                % (pid, res["viol"]["n"], os.path.basename(r["trace"]), len(res["viol"]["list"])))
        if not samples and res["conf"]["calls"] > 0:
            try:
                with open(r["trace"]) as f:
                    for i, l in enumerate(f):
                        if i in (2, 3, 4):
                            e = json.loads(l)
                            samples.append({k: e.get(k) for k in ("ev", "node", "call", "args", "res", "out") if k in e})
            except Exception:
                pass

    # ---------------------------------------------------------------- verdict
    known = load_known()
    reported = 0
    known_hits = {}
    seen = set()
    for v in violations:
        k = next((k for k in known if matches_known(k, pid, v["clause"], v["call"], v["extra"])), None)
        if k:
            known_hits[k["id"]] = known_hits.get(k["id"], 0) + 1
            continue
        sig = (v["clause"], v["call"])
        if sig in seen:
            continue
        seen.add(sig)
        excerpt, first = trace_excerpt(v["trace"], v["line"], v["run"])
        j = v["job"]
        h = hashlib.sha1(("%s|%s|%s|%s" % (pid, v["clause"], j["seed"], v["line"])).encode()).hexdigest()[:10]
        path = os.path.join(ROOT, "replays", "%s-%s.json" % (pid, h))
        script = None
        if j["driver"]["args"][0] == "replay":      # keep the model-generated behaviour itself: self-contained replay
            try:
                with open(j["driver"]["args"][2]) as sf:
                    for i, sl in enumerate(sf):
                        if i == v["run"]:
                            script = json.loads(sl)
            except Exception:
                pass
        json.dump({"property": pid, "clause": v["clause"], "call": v["call"], "line": v["line"], "run": v["run"],
                   "driver": j["driver"], "seed": j["seed"], "tier": tier, "script": script,
                   "how": "tools/check.py %s --replay %s  (re-runs the driver with this seed on the current tree and re-validates)" % (pid, os.path.relpath(path, ROOT)),
                   "events_up_to_violation": excerpt}, open(path, "w"), indent=1)
        log("VIOLATION property=%s replay=%s" % (pid, path))
        log("  clause: %s   call: %s   trace line: %d   driver: %s --seed %d"
            % (v["clause"], v["call"], v["line"], " ".join(j["driver"]["args"]), j["seed"]))
        reported += 1
    for k in known:
        if k["id"] in known_hits:
            log("KNOWN-FINDING: property=%s %s (%d occurrences)" % (pid, k["what"], known_hits[k["id"]]))

    # coverage goals
    for g, need in P.get("goals", {}).items():
        have = ev.get("coverage_goals", {}).get(g, 0)
        if have < need.get(tier, 1):
            log("COVERAGE-WARNING property=%s goal %s reached %d < %d" % (pid, g, have, need.get(tier, 1)))

    # vacuity guard (spec/MonHits.tla): the situations each clause of the property talks about must have occurred
    hits = ev.get("hits", {})
    if hits:
        for t in EXPECTED_SITUATIONS.get(pid, []):
            if hits.get(t, 0) == 0:
                log("COVERAGE-WARNING property=%s situation never exercised by the validated traces: %s" % (pid, t))

    level = P["level"]
    coverage = {
        "states": mc_states + ev["tlc_trace_states"],
        "transitions": max(mc_trans + ev["calls"], 1),
        "traces_validated_against_impl": ev["traces"],
        "samples": samples or [{"note": "no trace sample"}],
        "evaluations": ev["calls"] + mc_trans,
        "distinct_nontrivial": max(mc_states + ev["tlc_trace_states"], 2) if (mc_states + ev["tlc_trace_states"]) else 0,
        "rule": P.get("rule", "model states enumerated by TLC (distinct) plus distinct states of the trace specification; "
                              "an implementation event is non-trivial when it is a public call with its full observation"),
        "exhaustive": bool(P.get("exhaustive")) and not replay,
        "model_checks": ev["mc"],
        "model_states": mc_states,
        "model_transitions": mc_trans,
        "impl_events": ev["events"],
        "model_behaviours_replayed_on_impl": ev.get("model_scripts", 0) + ev.get("model_scripts_exhaustive", 0),
        "model_behaviours_exhaustive_scope_replayed": ev.get("model_scripts_exhaustive", 0),
        "impl_calls_validated": ev["calls"],
        "conformance_divergences": ev["divergences"],
        "model_transfers": ev["divergences"] == 0,
        "impl_panics": ev["panics"],
        "drivers": ev["drivers"][:12],
        "coverage_goals": ev.get("coverage_goals", {}),
        "monitors": P["monitors"],
        "situations_exercised": {t: n for t, n in sorted(hits.items())
                                 if t.startswith(pid + ":") or not re.match(r"C\d\d:", t)},
        "known_findings_hit": known_hits,
        "tool_errors": tool_errors[:5],
    }
    evidence = {
        "property_id": pid, "tier": tier, "seed": seed, "level": level, "coverage": coverage,
        "assumptions": P.get("assumptions", []),
        "wall_s": round(time.time() - T0, 1), "violations": reported,
    }
    if not replay:      # a replay re-examines one recorded run; it is not a run of the check
        json.dump(evidence, open(os.path.join(ROOT, "evidence", pid + ".json"), "w"), indent=1)

    if not a.keep and reported == 0 and not tool_errors:
        shutil.rmtree(work, ignore_errors=True)
    if reported:
        sys.exit(1)
    if tool_errors:
        for t in tool_errors:
            log("TOOL-ERROR:", t)
        sys.exit(2)
    log("[%s] OK tier=%s: model %d states; %d impl calls in %d traces validated, %d divergences (%.0fs)"
        % (pid, tier, mc_states, ev["calls"], ev["traces"], ev["divergences"], time.time() - T0))
    sys.exit(0)


if __name__ == "__main__":
    main()
