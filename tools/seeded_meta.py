#!/usr/bin/env python3
"""writes seeded/<id>/meta.json from the sub-agent's notes and the evaluation summaries (work/mutants.summary*)"""
import glob, json, os, re
ROOT = os.path.dirname(os.path.dirname(os.path.abspath(__file__)))
res = {}
for f in sorted(glob.glob(os.path.join(ROOT, "seeded", "results*.txt"))):
    for l in open(f):
        m = re.match(r"MUTANT (\S+) check=(\S+) rc=(\d+) violations=(\d+) divergences=(\d+)\s*(?:clause: (.*))?", l.strip())
        if m:
            res[(m.group(1), m.group(2))] = {"check": m.group(2), "exit": int(m.group(3)), "violations": int(m.group(4)),
                                           "conformance_divergences": int(m.group(5)), "first_clause": (m.group(6) or "").strip()}
for d in sorted(glob.glob(os.path.join(ROOT, "seeded", "C*-*"))):
    name = os.path.basename(d)
    prop = name.split("-")[0]
    notes = open(os.path.join(d, "notes.md")).read() if os.path.exists(os.path.join(d, "notes.md")) else ""
    evals = [v for (n, c), v in res.items() if n == name]
    meta = {
        "name": name,
        "property": prop,
        "source": "sub-agent given only the property text and a scratch worktree of /repo (no access to /verif)",
        "what_it_needs_to_manifest": notes.strip()[:1500],
        "confirmed": {
            "how": "tools/confirm_mutant.sh %s %s in a fresh scratch worktree of /repo HEAD" % (prop, name.split("-")[1]),
            "patch_only": "cargo test --offline: 79 passed, 0 failed",
            "patch_plus_demo": "79 passed, 1 failed (the demonstration)",
            "clean_plus_demo": "80 passed, 0 failed",
        },
        "evaluated": {
            "how": "tools/mutant_eval.sh %s %s (scratch worktree + scratch copy of /verif; /repo untouched)" % (name, prop),
            "results": evals,
            "detected": any(e["exit"] == 1 for e in evals),
        },
    }
    json.dump(meta, open(os.path.join(d, "meta.json"), "w"), indent=1)
    print(name, "detected" if meta["evaluated"]["detected"] else ("not-evaluated" if not evals else "MISSED"))
