------------------------------- MODULE MonC15 -------------------------------
(***************************************************************************)
(* C15  Dissemination accounting: updates gossiped at most                 *)
(*      max_transmissions times.                                           *)
(*                                                                         *)
(* Stateless per call: compares the backlog before and after the call      *)
(* (hook: remaining transmissions per entry; public: updates_backlog) with *)
(* the update sections of the datagrams sent by the call.                  *)
(***************************************************************************)
EXTENDS MonCommon

C15Init == [v |-> {}]

\* datagrams that piggyback backlog entries
Piggy(out) == SelectSeq(OSends(out), LAMBDA s : s.d.hok /\ NeedsPiggyback(s.d.h.msg.k) /\ s.d.h.msg.k # "Feed")
Carried(out, m) == Cardinality({i \in DOMAIN Piggy(out) : m \in Range(Piggy(out)[i].d.mem)})
Contents(E) == {E[i].m : i \in DOMAIN E}
TxOf(E, m) == E[CHOOSE i \in DOMAIN E : E[i].m = m].tx

\* calls in which every acceptance into the backlog precedes every send, so that the backlog at the
\* time of the first send can be reconstructed from the backlog after the call
Reconstructible(o) ==
    \/ o.call \in {"gossip", "leave", "change_identity", "timer", "announce", "broadcast"}
    \/ (o.call = "data" /\ Len(Piggy(o.out)) = 1 /\ Piggy(o.out)[1].d.h.msg.k # "Gossip"
        /\ ~HasNotif(o.out, "Rejoin"))

RECURSIVE FillsOk(_, _, _, _)
FillsOk(B, S, maxpkt, codec) ==
    IF S = <<>> THEN TRUE
    ELSE LET s == Head(S)
             space == maxpkt - s.d.hs - 2
             inc == [i \in DOMAIN s.d.mem |-> UpdEntryOf(B, codec, s.d.mem[i])]
         IN /\ (s.d.tally >= 0 => FillOk(B, space, inc, 0))
            /\ (s.d.tally < 0 => maxpkt - s.d.hs <= 2)
            /\ FillsOk(IF s.d.tally >= 0 THEN AfterFill(B, inc) ELSE B, Tail(S), maxpkt, codec)

C15Step(m, o) ==
    LET E0 == o.hpre.upd
        E1 == o.hpost.upd
        maxtx == o.hpre.cfg.maxtx
        C0 == Contents(E0)
        C1 == Contents(E1)
        wire == UNION {Range(Piggy(o.out)[i].d.mem) : i \in DOMAIN Piggy(o.out)}
        \* the backlog when the first datagram of this call was assembled
        B0 == [i \in DOMAIN E1 |-> [E1[i] EXCEPT !.tx = @ + Carried(o.out, E1[i].m)]]
              \o LET gone == wire \ C1
                     RECURSIVE Enum(_)
                     Enum(T) == IF T = {} THEN <<>>
                                ELSE LET x == CHOOSE y \in T : TRUE
                                     IN <<[m |-> x, sz |-> MSize(o.static.codec, x), tx |-> Carried(o.out, x)]>> \o Enum(T \ {x})
                 IN Enum(gone)
    IN [v |->
          V(Cardinality({Addr(E1[i].m.id) : i \in DOMAIN E1}) = Len(E1), "two-backlog-entries-for-one-address")
          \cup V(o.post.ubl = Len(E1), "updates_backlog-differs-from-the-backlog")
          \cup V(\A i \in DOMAIN E1 : E1[i].tx >= 1 /\ E1[i].tx <= 255, "entry-with-no-transmissions-left-kept")
          \* entries present after the call: continued (decremented once per datagram that carried them)
          \* or freshly accepted (start at max_transmissions)
          \cup V(\A i \in DOMAIN E1 :
                    LET e == E1[i] c == Carried(o.out, e.m) IN
                    \/ (e.m \in C0 /\ e.tx = TxOf(E0, e.m) - c)
                    \/ (\E k \in 0..c : e.tx = maxtx - k),
                 "remaining-transmissions-do-not-match-the-datagrams-sent")
          \* entries gone after the call: exhausted, or superseded by a fresher update for the address
          \cup V(\A i \in DOMAIN E0 :
                    LET e == E0[i] c == Carried(o.out, e.m) IN
                    e.m \in C1 \/ e.tx - c = 0
                    \/ (\E x \in (C1 \cup wire) : Addr(x.id) = Addr(e.m.id) /\ x # e.m)
                    \* accepted again with the same content (leave_cluster / change_identity queue Down(self) whatever
                    \* is pending; max_transmissions may have been lowered by set_config) and then exhausted
                    \/ c >= maxtx,
                 "entry-left-the-backlog-before-max_transmissions-without-being-superseded")
          \* everything on the wire comes from the backlog
          \* (accepted within the call and exhausted: one budget of max_transmissions per acceptance; an update
          \*  can be accepted more than once in a call - Down(self), another identity of the own address and
          \*  Down(self) again in one datagram: renewal queues Down(old), the second supersedes it, the third
          \*  supersedes that one - so the bound is per mention of the identity in the input, plus the Down of
          \*  the own former identity queued by change_identity / leave_cluster)
          \cup V(\A x \in wire : x \in C0 \/ x \in C1
                                   \/ (LET U == UpdatesIn(o)
                                           occ == Cardinality({i \in DOMAIN U : U[i].id = x.id})
                                                  + (IF x.id = o.pre.id THEN 1 ELSE 0)
                                       IN (Carried(o.out, x) >= maxtx /\ Carried(o.out, x) <= maxtx * Max(occ, 1)))
                                   \* accepted, sent, then superseded by a fresher update within the same call
                                   \/ (\E y \in (C1 \cup wire) : Addr(y.id) = Addr(x.id) /\ y # x),
                 "update-on-the-wire-that-was-not-in-the-backlog")
          \* never omit what still fits; precedence to entries with more transmissions left
          \cup V((Reconstructible(o) /\ Piggy(o.out) # <<>> /\ o.res # "Panic") =>
                    FillsOk(B0, Piggy(o.out), o.hpre.cfg.maxpkt, o.static.codec),
                 "datagram-omits-a-fitting-update-or-ignores-precedence")
          \* broadcasting disabled leaves the backlog untouched (own-address entries aside)
          \cup V((o.call = "apply_many" /\ ~o.args.bcast) =>
                    \A x \in C1 : x \in C0 \/ Addr(x.id) = Addr(o.pre.id),
                 "apply_many-without-broadcast-added-to-the-backlog")]
=============================================================================
