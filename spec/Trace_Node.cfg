SPECIFICATION Spec
CONSTANTS
  IncMax = 65535
  TokenMod = 256
  Fixes = {"654ac52", "3f5c312", "66b62cc", "7418747", "f6702a7", "73fde95", "ea3a2f4", "6ca130a", "a23716c"}
  ProbeMod = 256
INVARIANT Report
POSTCONDITION Done
CHECK_DEADLOCK FALSE
