------------------------------- MODULE MC_C01 -------------------------------
(***************************************************************************)
(* C01 on the specification, COMPLETE for the abstract domain:             *)
(* every membership table over Addrs x Gens x Incs x States (one row per   *)
(* address or none) is an initial state, and the laws are checked for      *)
(* every update and every pair of updates (adjacent transpositions give    *)
(* every permutation; idempotence gives every multiplicity), and for       *)
(* every pair of tables for the state-exchange clause.                     *)
(***************************************************************************)
EXTENDS MonC01

CONSTANTS Addrs, Gens, Incs

VARIABLE t     \* a membership table: sequence of member records, one per address
Ids == {<<a, g>> : a \in Addrs, g \in Gens}
Recs == {Mem(i, n, s) : i \in Ids, n \in Incs, s \in States}

RowsOf(a) == {<<>>} \cup {<<r>> : r \in {x \in Recs : Addr(x.id) = a}}
\* all tables (rows in address order; the order of records is irrelevant to the laws)
RECURSIVE TablesOver(_)
TablesOver(as) ==
    IF as = {} THEN {<<>>}
    ELSE LET a == CHOOSE x \in as : \A y \in as : x <= y IN
         {r \o rest : r \in RowsOf(a), rest \in TablesOver(as \ {a})}
Tables == TablesOver(Addrs)

Ap(tab, u) == Apply(tab, CountActive(tab), u).mem
RECURSIVE ApAll(_, _)
ApAll(tab, us) == IF us = <<>> THEN tab ELSE ApAll(Ap(tab, Head(us)), Tail(us))

Init == t \in Tables
Next == UNCHANGED t
Spec == Init /\ [][Next]_t

Monotone == \A u \in Recs : \A a \in Addrs : Leq(RowOf(t, a), RowOf(Ap(t, u), a))

IsJoin == \A u \in Recs :
             /\ Approx(RowOf(Ap(t, u), Addr(u.id)), JoinRow(RowOf(t, Addr(u.id)), u))
             /\ \A a \in Addrs \ {Addr(u.id)} : RowOf(Ap(t, u), a) = RowOf(t, a)

Commutes == \A u1, u2 \in Recs : SameView(Ap(Ap(t, u1), u2), Ap(Ap(t, u2), u1), Addrs)
Idempotent == \A u \in Recs : SameView(Ap(Ap(t, u), u), Ap(t, u), Addrs)

OneRowPerAddress == \A u \in Recs : LET r == Ap(t, u) IN Cardinality(AddrsOf(r)) = Len(r)

\* re-applying its own full state changes nothing and is never reported as a successful apply
SelfReapply == \A i \in DOMAIN t :
                  LET s == Apply(t, CountActive(t), t[i]) IN s.mem = t /\ ~s.ok /\ ~s.changed

\* A sends its full state to B, B replies with its (new) full state: they agree
Exchange == \A t2 \in Tables :
               LET b1 == ApAll(t2, t)       \* B after receiving A's state
                   a1 == ApAll(t, b1)       \* A after receiving B's reply
               IN SameView(a1, b1, Addrs)

\* the record-level function that spec/ApaC01.tla reasons about symbolically (all of 0..65535) is what
\* Members!Apply does to the row of a known address
ApRec(r, x) == IF x.id # r.id THEN (IF Wins(r.id, x.id) THEN r ELSE x)
               ELSE IF CanChange(r, x.inc, x.st) THEN Mem(r.id, x.inc, x.st) ELSE r
AgreesWithRecordLevel ==
    \A u \in Recs : LET row == RowOf(t, Addr(u.id)) IN
                     row # <<>> => RowOf(Ap(t, u), Addr(u.id)) = <<ApRec(row[1], u)>>

\* the cached count of active members is maintained correctly
CountOk == \A u \in Recs : Apply(t, CountActive(t), u).nactive = CountActive(Ap(t, u))
=============================================================================
