------------------------------- MODULE MonC10 -------------------------------
(***************************************************************************)
(* C10  Incarnation discipline, self-refutation, reaction to own death.    *)
(*                                                                         *)
(* Observed through outgoing headers (src, src_incarnation), the update    *)
(* sections of outgoing datagrams and the Rejoin / Defunct notifications;  *)
(* the hook incarnation is used as a cross-check of the same clauses.      *)
(* History: cur   - identity in use (as seen on the last header / call)    *)
(*          last  - its last incarnation seen on a header (-1: none yet)   *)
(*          must  - an incarnation every later header must exceed (-1)     *)
(*          told  - identity -> highest incarnation the instance was told  *)
(*          dead  - the identity in use is known Down and not replaced     *)
(***************************************************************************)
EXTENDS MonCommon

C10Init == [cur |-> NoId, last |-> -1, must |-> -1, told |-> <<>>, dead |-> FALSE, v |-> {}]

\* (identity, incarnation) pairs offered by this call
ToldPairs(o) ==
    (IF o.call = "data" /\ o.args.hok
     THEN {<<o.args.h.src, o.args.h.inc>>} \cup {<<o.args.mem[i].id, o.args.mem[i].inc>> : i \in DOMAIN o.args.mem}
     ELSE {})
    \cup (IF o.call = "apply_many"
          THEN {<<o.args.updates[i].id, o.args.updates[i].inc>> : i \in DOMAIN o.args.updates} ELSE {})
    \cup (IF o.call = "timer" /\ o.args.k = "Suspect" THEN {<<o.args.id, o.args.inc>>} ELSE {})

MergeTold(told, pairs) ==
    LET ids == DOMAIN told \cup {p[1] : p \in pairs} IN
    [i \in ids |->
        LET ps == {p[2] : p \in {q \in pairs : q[1] = i}}
            old == IF i \in DOMAIN told THEN {told[i]} ELSE {}
            all == ps \cup old
        IN CHOOSE x \in all : \A y \in all : x >= y]

\* suspicions about the identity in use present in the input
SelfSuspicions(o, id) ==
    LET U == UpdatesIn(o) IN {U[i].inc : i \in {j \in DOMAIN U : U[j].id = id /\ U[j].st = "S"}}

\* one outgoing datagram, folded in order
C10Send(a, s) ==
    IF ~s.d.hok THEN [a EXCEPT !.v = @ \cup {"outgoing-header-unparseable"}]
    ELSE
    LET h == s.d.h
        same == h.src = a.cur
        others == {i \in DOMAIN s.d.mem : Addr(s.d.mem[i].id) # Addr(h.src)}
        v1 == IF same
              THEN V(h.inc >= a.last, "own-incarnation-decreased")
                   \cup V(a.must < 0 \/ h.inc > a.must, "suspicion-not-refuted-by-higher-incarnation")
              ELSE V(h.inc = 0 \/ h.src \in a.excuse, "new-identity-does-not-start-at-incarnation-0")
        v2 == V(\A i \in others :
                    /\ s.d.mem[i].id \in DOMAIN a.told
                    /\ s.d.mem[i].inc <= a.told[s.d.mem[i].id],
                "told-others-a-higher-incarnation-than-it-was-told")
    IN [a EXCEPT !.cur = h.src,
                 !.last = h.inc,
                 !.must = IF same THEN @ ELSE -1,
                 !.v = @ \cup v1 \cup v2]

RECURSIVE C10Fold(_, _)
C10Fold(a, S) == IF S = <<>> THEN a ELSE C10Fold(C10Send(a, Head(S)), Tail(S))

C10Step(m, o) ==
    \* what it was told, plus what it knows first hand: its own identity at its own incarnation
    \* (the Down of a former identity is gossiped after a move to another address)
    \* (every identity it held, also one held only in the middle of a call - two renewals in one datagram -
    \*  which Rejoin names; its Down is still in the backlog when the instance later moves to another address)
    LET told == MergeTold(m.told, ToldPairs(o) \cup {<<o.pre.id, o.hpre.inc>>, <<o.post.id, o.hpost.inc>>}
                                  \cup {<<n.id, 0>> : n \in {x \in Range(Notifs(o.out)) : x.k = "Rejoin"}})
        idChanged == o.post.id # o.pre.id
        restart == idChanged \/ (o.call = "reuse" /\ o.res = "Ok")
        \* the identity in use is tracked from the public getter between calls
        a0 == [cur |-> IF m.cur = NoId \/ m.cur # o.pre.id THEN o.pre.id ELSE m.cur,
               last |-> IF m.cur # o.pre.id THEN -1 ELSE m.last,
               must |-> IF m.cur # o.pre.id THEN -1 ELSE m.must,
               told |-> told, v |-> {},
               excuse |-> LET U == UpdatesIn(o) IN {U[i].id : i \in {j \in DOMAIN U : U[j].st = "S"}}]
        a1 == C10Fold(a0, OSends(o.out))
        susp == SelfSuspicions(o, o.pre.id)
        \* suspicions certainly processed: apply_many, no identity change, no error
        \* (an identity that is already Down cannot refute anything - Down overrides every incarnation -
        \*  so suspicions reaching a defunct instance are not "processed" in the sense of the clause)
        certain == IF o.call = "apply_many" /\ o.res = "Ok" /\ ~idChanged /\ ~HasNotif(o.out, "Defunct")
                      /\ ~m.dead /\ o.hpre.conn # "U"
                   THEN {i \in susp : i >= o.hpre.inc /\ i < IncMax} ELSE {}
        must == IF restart THEN -1
                ELSE IF certain = {} THEN a1.must
                ELSE Max(a1.must, CHOOSE x \in certain : \A y \in certain : x >= y)
        \* learning of own death (certain cases, as in C08)
        downCertain == /\ o.call = "apply_many" /\ o.res = "Ok"
                       /\ \E i \in DOMAIN o.args.updates :
                             /\ o.args.updates[i].id = o.pre.id /\ o.args.updates[i].st = "D"
                             /\ \A j \in 1..(i - 1) : Addr(o.args.updates[j].id) # Addr(o.pre.id)
        \* ... or a bare TurnUndead addressed to the current identity, whoever sent it (active member or one held as
        \* Down) and whatever notify_down_members says on this side
        turnUndead == /\ DataProcessed(o) /\ o.res = "Ok" /\ o.args.h.msg.k = "TurnUndead" /\ o.args.h.dst = o.pre.id
                      /\ o.args.mem = <<>> /\ o.args.items = <<>> /\ ~m.dead /\ o.hpre.conn # "U"
        \* a suspicion at the maximum incarnation cannot be refuted: renew or become defunct
        unrefutable == /\ o.call = "apply_many" /\ o.res = "Ok" /\ ~m.dead /\ o.hpre.conn # "U"
                       /\ \E i \in DOMAIN o.args.updates :
                             /\ o.args.updates[i].id = o.pre.id /\ o.args.updates[i].st = "S"
                             /\ o.args.updates[i].inc = IncMax
                             /\ \A j \in 1..(i - 1) : Addr(o.args.updates[j].id) # Addr(o.pre.id)
        rejoins == {n \in Range(Notifs(o.out)) : n.k = "Rejoin"}
        \* the Down of the old identity is queued (or already sent); when the instance renews twice within one
        \* call the backlog - one entry per address - only keeps the Down of the later of its former identities
        FormerDown(x) == Addr(x.id) = Addr(o.pre.id) /\ x.st = "D" /\ x.id # o.post.id
        oldDownGossiped ==
            \/ \E i \in DOMAIN o.hpost.upd : FormerDown(o.hpost.upd[i].m)
            \/ \E i \in DOMAIN o.out : o.out[i].k = "send" /\ \E y \in Range(o.out[i].d.mem) : FormerDown(y)
        dead == IF restart THEN FALSE
                ELSE IF HasNotif(o.out, "Defunct") THEN TRUE ELSE m.dead
        S == OSends(o.out)
        v == a1.v
             \* hook cross-checks
             \cup V(restart \/ o.hpost.inc >= o.hpre.inc, "hook:incarnation-decreased")
             \cup V((~restart /\ o.hpost.inc > o.hpre.inc) => \E i \in susp : i >= o.hpre.inc,
                    "incarnation-grew-without-a-suspicion-at-or-above-it")
             \cup V((restart /\ SelfSuspicions(o, o.post.id) = {}) => o.hpost.inc = 0,
                    "new-identity-does-not-start-at-incarnation-0")
             \cup V(\A i \in certain : o.hpost.inc > i, "processed-suspicion-but-incarnation-not-above-it")
             \* own death
             \cup V(\A n \in rejoins : Wins(n.id, o.pre.id) \/ n.id = o.post.id, "Rejoin-with-non-winning-identity")
             \cup V(turnUndead => (HasNotif(o.out, "Defunct") \/ (rejoins # {} /\ idChanged)),
                    "told-to-be-down-by-TurnUndead-but-neither-renewed-nor-defunct")
             \cup V(downCertain =>
                       \/ (HasNotif(o.out, "Defunct") /\ o.hpost.conn = "U")
                       \/ (rejoins # {} /\ idChanged /\ Wins(o.post.id, o.pre.id)
                           /\ (oldDownGossiped \/ o.hpre.conn = "U")),   \* already defunct: its death was gossiped then
                    "learned-own-death-but-neither-renewed-(with-Down-gossip)-nor-defunct")
             \cup V(unrefutable => (HasNotif(o.out, "Defunct") \/ (rejoins # {} /\ idChanged)),
                    "suspected-at-the-maximum-incarnation-but-neither-renewed-nor-defunct")
             \* a defunct instance does not carry on as an active member: it neither probes
             \* nor answers probes / join requests (gossip reacting to a suspicion and
             \* TurnUndead replies are not "carrying on as active")
             \cup V((m.dead /\ ~restart /\ o.call \in {"data", "timer"}) =>
                        \A i \in DOMAIN S : S[i].d.h.msg.k \in {"TurnUndead", "Gossip"},
                    "defunct-instance-carries-on-as-active")
             \cup V((m.dead /\ ~restart) => ~HasNotif(o.out, "Active"), "Active-under-a-dead-identity")
    IN [cur |-> o.post.id,
        last |-> IF restart THEN (IF idChanged /\ a1.cur = o.post.id THEN a1.last ELSE -1) ELSE a1.last,
        must |-> must, told |-> told, dead |-> dead, v |-> v]
=============================================================================
