----------------------------- MODULE MonCluster -----------------------------
(***************************************************************************)
(* Cluster-level properties C02, C03, C04, C05, C18 as monitors over the   *)
(* global history of ClusterObs.  g0 is the history before the event, g1   *)
(* after the common bookkeeping (GCall).                                   *)
(***************************************************************************)
EXTENDS ClusterObs

N(g) == g.hdr.n
P(g) == g.hdr.period
BadNotes == {"MemberDown", "Idle", "Defunct", "Rejoin"}

LiveIds(g) == {g.ids[n] : n \in Up(g)}

-----------------------------------------------------------------------------
(* C02  fault-free cluster: full discovery, zero false suspicion           *)

\* the statement says "linear in the cluster size"; the constant is fixed here, not tuned per run
C02Bound(g) == (4 * N(g) + 10) * P(g)

C02Call(g0, g1, e) ==
    LET x == e.node IN
    Vc(e.res = "Ok", "call-returned-an-error-in-a-fault-free-run")
    \cup Vc(\A i \in DOMAIN EvNotes(e) : EvNotes(e)[i].k \notin BadNotes, "MemberDown/Idle/Defunct/Rejoin-in-a-fault-free-run")
    \cup Vc(\A i \in DOMAIN g1.view[x] :
              (\E y \in Up(g1) \ {x} : g1.ids[y] = g1.view[x][i].id) => g1.view[x][i].st = "A",
           "live-member-recorded-as-Suspect-or-Down-in-a-fault-free-run")

C02End(g, e) ==
    IF e.now < g.lastJoin + C02Bound(g) THEN {}
    ELSE IF "nodisc" \in DOMAIN g.hdr /\ g.hdr.nodisc THEN {}   \* packets too small to feed the cluster
    ELSE
    LET up == Up(g)
        view(x) == e.views[x + 1]
        act(x) == {view(x).members[i] : i \in DOMAIN view(x).members}
        missing == {p \in up \X up : p[1] # p[2] /\ g.ids[p[2]] \notin act(p[1])}
        extra == {x \in up : act(x) \ {g.ids[y] : y \in up \ {x}} # {}}
        told == \E p \in missing : g.ids[p[2]] \in g.told[p[1]]
        pending == \E p \in missing : \E z \in up : \E i \in DOMAIN view(z).pending : view(z).pending[i].id = g.ids[p[2]]
    IN (IF missing = {} THEN {}
        ELSE IF told THEN {"discovery-incomplete:member-was-told-but-is-not-listed"}
        ELSE IF pending THEN {"discovery-incomplete:dissemination-still-pending-at-the-bound"}
        \* the packet size feeds the whole cluster, yet some Feed of the run listed fewer members than its sender
        \* had: the joiner was never told about them (distinct from the epidemic dying out by itself)
        ELSE IF g.feedshort THEN {"discovery-incomplete:a-Feed-omitted-members-although-the-packet-feeds-the-whole-cluster"}
        ELSE {"discovery-incomplete:epidemic-extinct-before-reaching-everyone"})
       \cup Vc(extra = {}, "lists-an-identity-that-is-not-a-live-member")

-----------------------------------------------------------------------------
(* C03  completeness after crash / leave, bounded                          *)

C03Deadline(g) == g.tFault + (2 * N(g) + 1) * P(g) + g.hdr.s2d

\* bookkeeping at the fault event: which survivors listed which failed identity
C03Fault(g, e, isLeave) ==
    LET f == e.node
        failed == g.failed \cup {f}
        fid == e.id
    IN [g EXCEPT !.failed = failed,
                 !.tFault = IF @ < 0 THEN e.now ELSE @,
                 !.status = (f :> IF isLeave THEN "left" ELSE "crashed") @@ @,
                 !.leaver = IF isLeave THEN @ \cup {fid} ELSE @,
                 !.listed = [s \in DOMAIN g.view |->
                               (IF s \in DOMAIN @ THEN @[s] ELSE {})
                               \cup (IF fid \in ActiveOf(g.view[s]) THEN {fid} ELSE {})]]

C03Call(g0, g1, e) ==
    LET x == e.node
        downs == NotesOf(e, "MemberDown")
        survivors == {g1.ids[y] : y \in Up(g1)}
        din == EvDin(e)
    IN Vc(g1.status[x] # "up" \/ downs \cap survivors = {}, "surviving-member-declared-Down")
       \cup Vc((g1.status[x] = "up" /\ e.call = "data" /\ e.res = "Ok" /\ EvFrom(e) \in g1.leaver
               /\ EvFrom(e) \in ActiveOf(g0.view[x])
               /\ \E i \in DOMAIN din : din[i].id = EvFrom(e) /\ din[i].st = "D") =>
                 EvFrom(e) \in downs,
              "leaver's-own-Down-gossip-not-reported-immediately")
       \cup Vc(g1.status[x] = "left" => \A i \in DOMAIN EvSendKinds(e) : EvSendKinds(e)[i] # "Ack",
              "member-that-left-still-answers-probes")

C03Track(g, e) ==
    LET x == e.node
        downs == NotesOf(e, "MemberDown")
        old == IF x \in DOMAIN g.downAt THEN g.downAt[x] ELSE <<>>
        new == [i \in (DOMAIN old \cup downs) |-> IF i \in DOMAIN old THEN old[i] ELSE e.now]
    IN [g EXCEPT !.downAt = (x :> new) @@ @]

C03End(g, e) ==
    IF g.tFault < 0 \/ e.now < C03Deadline(g) THEN {}
    ELSE Vc(\A s \in Up(g) : s \in DOMAIN g.listed =>
              \A i \in g.listed[s] :
                 s \in DOMAIN g.downAt /\ i \in DOMAIN g.downAt[s] /\ g.downAt[s][i] <= C03Deadline(g),
           "failed-member-not-reported-Down-within-(2n+1)-periods-plus-suspect_to_down_after")

-----------------------------------------------------------------------------
(* C04  a single lost datagram never gets a live member declared Down      *)

C04Bound(g) == g.hdr.s2d + (2 * N(g) + 2) * P(g)

C04Call(g0, g1, e) ==
    Vc(~g1.formed \/ \A i \in DOMAIN EvNotes(e) : EvNotes(e)[i].k \notin {"MemberDown", "Defunct", "Rejoin"},
      "MemberDown/Defunct/Rejoin-after-a-single-lost-datagram")

C04End(g, e) ==
    IF g.tDrop < 0 \/ e.now < g.tDrop + C04Bound(g) THEN {}
    ELSE Vc(\A x \in Up(g) : \A y \in Up(g) \ {x} :
              LET r == RowFor(e.views[x + 1].state, g.ids[y]) IN r # <<>> /\ r[1].st = "A",
           "not-everyone-Alive-again-within-the-bound-after-a-single-lost-datagram")

-----------------------------------------------------------------------------
(* C05  auto-rejoin after a healed partition                               *)

C05Bound(g) == 8 * g.hdr.pad

C05Call(g0, g1, e) ==
    LET x == e.node
        rj == NotesOf(e, "Rejoin")
    IN Vc(~HasNote(e, "Defunct"), "Defunct-instead-of-Rejoin-with-renewable-identity")
       \cup Vc(\A i \in rj : Wins(i, g0.ids[x]) \/ i = g1.ids[x], "Rejoin-with-identity-that-does-not-win")

C05Track(g, e) ==
    LET x == e.node
        toldNow == e.call = "data" /\ e.res = "Ok" /\ EvAcc(e) /\ EvKind(e) = "TurnUndead"
    IN [g EXCEPT !.toldDown = IF toldNow THEN @ \cup {x} ELSE @,
                 !.rejoined = IF HasNote(e, "Rejoin") THEN @ \cup {x} ELSE @,
                 !.activeAfter = IF HasNote(e, "Rejoin") /\ ~HasNote(e, "Active") THEN @ \ {x}
                                 ELSE IF HasNote(e, "Active") THEN @ \cup {x} ELSE @]

C05End(g, e) ==
    IF g.tHeal < 0 \/ e.now < g.tHeal + C05Bound(g) THEN {}
    ELSE Vc(\A x \in Up(g) : \A y \in Up(g) \ {x} :
              g.ids[y] \in {e.views[x + 1].members[i] : i \in DOMAIN e.views[x + 1].members},
           "not-every-live-instance-listed-under-its-current-identity-after-heal")
         \cup Vc(g.toldDown \subseteq g.rejoined, "told-it-is-down-but-did-not-report-Rejoin")
         \cup Vc(g.rejoined \subseteq g.activeAfter, "rejoined-but-did-not-report-Active-afterwards")

-----------------------------------------------------------------------------
(* C18  reply cascades terminate (timers held)                             *)

C18Call(g0, g1, e) ==
    Vc(e.call # "data" \/ Len(EvSendKinds(e)) <= 2 * g1.hdr.fanout + 2,
      "one-delivery-caused-more-than-2*fanout+2-datagrams")

C18End(g, e) == Vc(e.inflight = 0, "reply-cascade-did-not-terminate-within-the-cap")
=============================================================================
