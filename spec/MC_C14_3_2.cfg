SPECIFICATION Spec
CONSTANTS
  IncMax = 3
  TokenMod = 4
  ProbeMod = 4
  NA = 3
  ND = 2
INVARIANTS Window NeverDown
CHECK_DEADLOCK FALSE
