------------------------------- MODULE Probe -------------------------------
(***************************************************************************)
(* The probe record (src/probe.rs) and its operations.                     *)
(*   direct  : <<>> or <<member snapshot>>                                 *)
(*   ind     : sequence of identities asked to probe indirectly            *)
(*   n       : probe number (wrapping, ProbeMod)                           *)
(*   ack     : direct ack received                                         *)
(*   iacks   : number of indirect acks received                            *)
(*   reached : the indirect-probe stage was reached                        *)
(***************************************************************************)
EXTENDS FocaTypes

ProbeInit == [direct |-> <<>>, ind |-> <<>>, n |-> 0, ack |-> FALSE, iacks |-> 0, reached |-> FALSE]

ProbeClear(p) == [p EXCEPT !.direct = <<>>, !.ind = <<>>, !.ack = FALSE, !.iacks = 0, !.reached = FALSE]
ProbeStart(p, target) == [ProbeClear(p) EXCEPT !.direct = <<target>>, !.n = (p.n + 1) % ProbeMod]
ProbeValid(p) == p.direct = <<>> \/ p.reached
ProbeSucceeded(p) == p.ack \/ p.iacks > 0
ProbeIsProbing(p, id) == p.direct # <<>> /\ p.direct[1].id = id

\* take_failed: [p, failed] with failed = <<>> or <<member>>
ProbeTakeFailed(p) ==
    IF ~ProbeSucceeded(p) THEN [p |-> [p EXCEPT !.direct = <<>>], failed |-> p.direct]
    ELSE [p |-> p, failed |-> <<>>]

ProbeReceiveAck(p, from, n) ==
    IF n = p.n /\ p.direct # <<>> /\ p.direct[1].id = from THEN [p EXCEPT !.ack = TRUE] ELSE p

ProbeExpectIndirect(p, from) == [p EXCEPT !.ind = Append(@, from)]

\* receive_indirect_ack: swap_remove of the first matching helper
ProbeReceiveIndirectAck(p, from, n) ==
    IF p.n # n \/ ~(\E i \in DOMAIN p.ind : p.ind[i] = from) THEN p
    ELSE LET i == CHOOSE k \in DOMAIN p.ind : p.ind[k] = from /\ \A j \in 1..(k - 1) : p.ind[j] # from
             len == Len(p.ind)
             ni == IF i = len THEN SubSeq(p.ind, 1, len - 1)
                   ELSE [j \in 1..(len - 1) |-> IF j = i THEN p.ind[len] ELSE p.ind[j]]
         IN [p EXCEPT !.iacks = @ + 1, !.ind = ni]
=============================================================================
