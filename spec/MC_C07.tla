------------------------------- MODULE MC_C07 -------------------------------
(***************************************************************************)
(* C07 on the specification, exhaustively over the packet size: for every  *)
(* max_packet_size from "a bare header just fits" to "everything fits"     *)
(* (byte by byte), every message kind, known and unknown destinations,     *)
(* fixed- and variable-length identities, several membership sizes,        *)
(* update backlogs and custom backlogs, FocaNode!SendMessage produces a    *)
(* datagram that is bounded, has exactly the sections its kind allows,     *)
(* lists a legal feed / a legal fill, and is accepted by the receiver's    *)
(* grammar (FocaNode!DataRejection at a peer with the same codec and       *)
(* packet size).  A header that does not fit yields Err:Encode and no      *)
(* datagram.                                                               *)
(***************************************************************************)
EXTENDS MonCommon

VARIABLES st, dst, msg
vars == <<st, dst, msg>>

Own == <<1, 0>>
Peers == <<(<<2, 0>>), (<<3, 1>>), (<<4, 0>>), (<<5, 2>>)>>
Cfg(maxpkt) == [period |-> 3, rtt |-> 1, fanout |-> 2, maxtx |-> 2, s2d |-> 5, rda |-> 9, maxpkt |-> maxpkt,
                notifydown |-> TRUE, pa |-> <<>>, pad |-> <<>>, pg |-> <<>>]

Item(k, v, sz) == [key |-> k, ver |-> v, sz |-> sz, intact |-> TRUE, tx |-> 2]
CusChoices == {<<>>, <<Item(1, 0, 2)>>, <<Item(1, 0, 2), Item(2, 1, 5)>>, <<Item(3, 0, 1), Item(2, 1, 9)>>}

Kinds == {Msg("Ping", 1, NoId), Msg("Ack", 1, NoId), Msg("PingReq", 1, <<3, 1>>), Msg("IndirectPing", 1, <<3, 1>>),
          Msg("IndirectAck", 1, <<3, 1>>), Msg("ForwardedAck", 1, <<3, 1>>), Msg("Announce", 0, NoId), Msg("Feed", 0, NoId),
          Msg("Gossip", 0, NoId), Msg("Broadcast", 0, NoId), Msg("TurnUndead", 0, NoId)}

Init ==
    \E nmem \in {0, 2, 4}, pat \in {"none", "one", "mixed"}, cus \in CusChoices, codec \in {"fixed", "var"},
       maxpkt \in 9..64, d \in {<<2, 0>>, <<9, 0>>}, m \in Kinds :
        LET mem == [i \in 1..nmem |-> Mem(Peers[i], i - 1, IF i = 3 THEN "S" ELSE "A")]
            upd == CASE pat = "none" -> <<>>
                     [] pat = "one" -> [i \in 1..nmem |-> [m |-> mem[i], sz |-> MSize(codec, mem[i]), tx |-> 1]]
                     [] pat = "mixed" -> [i \in 1..nmem |-> [m |-> mem[i], sz |-> MSize(codec, mem[i]), tx |-> 1 + (i % 2)]]
                                         \o <<[m |-> Mem(<<7, 0>>, 3, "D"), sz |-> MSize(codec, Mem(<<7, 0>>, 3, "D")), tx |-> 2]>>
            base == NodeInit(Own, "none", codec, "samekey", "all", Cfg(maxpkt))
        IN /\ st = [base EXCEPT !.mem = mem, !.nactive = nmem, !.conn = IF nmem > 0 THEN "C" ELSE "D",
                                !.upd = upd, !.cus = cus, !.inc = 1]
           /\ dst = d /\ msg = m

Next == UNCHANGED vars
Spec == Init /\ [][Next]_vars

Tape == [EmptyTape EXCEPT !.auto = TRUE, !.pref = <<>>]
C == SendMessage(Ctx(st, Tape, <<>>, TRUE), dst, msg)

WellFormed ==
    LET c == C IN
    IF c.err # "" THEN \* only when the bare header does not fit
         /\ c.err = "Err:Encode" /\ c.out = <<>> /\ ~HeaderFits(st, dst, msg) /\ c.st = st
    ELSE
      LET d == c.out[1].d
          k == msg.k
          rem1 == st.cfg.maxpkt - d.hs - 2
          usedM == SumSeq([i \in DOMAIN d.mem |-> MSize(st.codec, d.mem[i])])
          usedC == SumSeq([i \in DOMAIN d.items |-> d.items[i].sz + 2])
      IN /\ Len(c.out) = 1 /\ c.out[1].k = "send" /\ c.out[1].dst = dst /\ c.ok
         /\ d.len <= st.cfg.maxpkt
         /\ d.h = Hdr(st.id, st.inc, dst, msg)
         /\ d.len = d.hs + (IF d.tally >= 0 THEN 2 ELSE 0) + usedM + usedC
         /\ (k \in {"Announce", "TurnUndead"} => d.len = d.hs)
         /\ (k = "Broadcast" => d.mem = <<>> /\ d.tally = -1)
         /\ (d.tally >= 0 <=> (NeedsPiggyback(k) /\ st.cfg.maxpkt - d.hs > 2))
         /\ (d.tally >= 0 => d.tally = Len(d.mem))
         /\ (d.tally < 0 => d.mem = <<>>)
         /\ (k = "Feed" /\ d.tally >= 0 => FeedOk(st, dst, rem1, d.mem))
         /\ (k = "Feed" => \A i \in DOMAIN d.mem : d.mem[i].id # dst /\ d.mem[i].id # st.id /\ IsActive(d.mem[i])
                                                   /\ d.mem[i] \in Range(st.mem))
         /\ (NeedsPiggyback(k) /\ k # "Feed" /\ d.tally >= 0 =>
                FillOk(st.upd, rem1, [i \in DOMAIN d.mem |-> UpdEntryOf(st.upd, st.codec, d.mem[i])], 0))
         /\ (d.items # <<>> => AllowCustom(k))
         /\ (AllowCustom(k) => FillOk(st.cus, st.cfg.maxpkt - d.hs - (IF d.tally >= 0 THEN 2 ELSE 0) - usedM,
                                      MatchItems(st.cus, d.items), 2))
         /\ \A i \in DOMAIN d.items : d.items[i].sz >= 1

\* a peer with the same codec and packet size does not reject it as undecodable / malformed / too big
PeerAccepts ==
    LET c == C IN
    c.err = "" =>
      LET d == ObsDgram(st.codec, c.out[1].d)
          peer == NodeInit(dst, "none", st.codec, "samekey", "all", st.cfg)
      IN DataRejection(peer, d) = ""
=============================================================================
