------------------------------ MODULE Backlog ------------------------------
(***************************************************************************)
(* Broadcasts<V> (src/broadcast.rs): a max-heap of entries ordered by      *)
(* (remaining_tx, len) with unstable ties.  An entry is a record with at   *)
(* least the fields sz (encoded length) and tx (remaining transmissions).  *)
(* The backlog is a sequence read as a bag.                                *)
(***************************************************************************)
EXTENDS FocaTypes

\* heap priority, larger first
PrioGt(a, b) == a.tx > b.tx \/ (a.tx = b.tx /\ a.sz > b.sz)
PrioGe(a, b) == a.tx > b.tx \/ (a.tx = b.tx /\ a.sz >= b.sz)

RECURSIVE RemoveOne(_, _)
RemoveOne(s, x) ==
    IF s = <<>> THEN <<>>
    ELSE IF Head(s) = x THEN Tail(s) ELSE <<Head(s)>> \o RemoveOne(Tail(s), x)

\* is `inc` (a sequence) a sub-bag of `s`?
RECURSIVE SubBag(_, _)
SubBag(inc, s) ==
    IF inc = <<>> THEN TRUE
    ELSE (\E i \in DOMAIN s : s[i] = Head(inc)) /\ SubBag(Tail(inc), RemoveOne(s, Head(inc)))

RECURSIVE RemoveAll(_, _)
RemoveAll(s, inc) == IF inc = <<>> THEN s ELSE RemoveAll(RemoveOne(s, Head(inc)), Tail(inc))

(***************************************************************************)
(* fill / fill_with_len_prefix (broadcast.rs:141,174).  `space` bytes are  *)
(* available, an entry costs sz + overhead bytes.  The heap is drained in  *)
(* priority order; an entry is included iff it fits at the moment it is    *)
(* popped; the loop goes on while any space is left.  Given the sequence   *)
(* `inc` of included entries in the order they were written:               *)
(*   - inc is a sub-bag of the backlog, written by non-increasing priority *)
(*   - each included entry fitted                                          *)
(*   - each entry left out did not fit in the space left once everything   *)
(*     of at least its priority that was included had been written         *)
(***************************************************************************)
Cost(e, overhead) == e.sz + overhead

SpaceAfterPrio(space, inc, e, overhead) ==
    space - SumSeq([i \in DOMAIN inc |-> IF PrioGe(inc[i], e) THEN Cost(inc[i], overhead) ELSE 0])

FillOk(backlog, space, inc, overhead) ==
    /\ SubBag(inc, backlog)
    /\ \A i, j \in DOMAIN inc : i < j => PrioGe(inc[i], inc[j])
    /\ SumSeq([i \in DOMAIN inc |-> Cost(inc[i], overhead)]) <= space
    /\ LET rest == RemoveAll(backlog, inc) IN
       \A i \in DOMAIN rest :
          Cost(rest[i], overhead) > SpaceAfterPrio(space, inc, rest[i], overhead)

\* backlog after the included entries were transmitted once more
AfterFill(backlog, inc) ==
    LET rest == RemoveAll(backlog, inc)
        dec == [i \in DOMAIN inc |-> [inc[i] EXCEPT !.tx = @ - 1]]
    IN rest \o SelectSeq(dec, LAMBDA e : e.tx > 0)

FillUsed(inc, overhead) == SumSeq([i \in DOMAIN inc |-> Cost(inc[i], overhead)])

(***************************************************************************)
(* A canonical fill for model checking: highest priority first, ties in    *)
(* sequence order (one of the behaviours the heap allows).                 *)
(***************************************************************************)
RECURSIVE CanonFill(_, _, _)
CanonFill(backlog, space, overhead) ==
    IF backlog = <<>> \/ space <= 0 THEN <<>>
    ELSE LET best == CHOOSE i \in DOMAIN backlog :
                        \A j \in DOMAIN backlog : PrioGt(backlog[i], backlog[j]) \/
                             (~PrioGt(backlog[j], backlog[i]) /\ i <= j)
             e == backlog[best]
             rest == RemoveOne(backlog, e)
         IN IF Cost(e, overhead) <= space
            THEN <<e>> \o CanonFill(rest, space - Cost(e, overhead), overhead)
            ELSE CanonFill(rest, space, overhead)

\* add_or_replace (broadcast.rs:131): drop everything the new entry invalidates
AddOrReplace(backlog, e, Inv(_, _)) ==
    Append(SelectSeq(backlog, LAMBDA o : ~Inv(e, o)), e)

UpdEntry(codec, m, maxtx) == [m |-> m, sz |-> MSize(codec, m), tx |-> maxtx]
UpdInvalidates(new, old) == Addr(new.m.id) = Addr(old.m.id)
AddUpdate(backlog, codec, m, maxtx) == AddOrReplace(backlog, UpdEntry(codec, m, maxtx), UpdInvalidates)
=============================================================================
