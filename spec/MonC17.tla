------------------------------- MODULE MonC17 -------------------------------
(***************************************************************************)
(* C17  Deterministic, and rejected input leaves no trace.                 *)
(*                                                                         *)
(* Twin lanes written by the harness' twin driver: lane A executes a base  *)
(* history, lane B the same history with rejected inputs of every class    *)
(* inserted (tag.ins = class).  Both lanes share configuration and RNG     *)
(* seed.  For every aligned base step k the two observations must be       *)
(* equal in result, effects, public view, hook view and RNG draw count;    *)
(* every inserted input must return the result of its class and change    *)
(* nothing.  With no insertion between two steps this is plain             *)
(* determinism.                                                            *)
(* Global history: lastA - lane A's observation of the current base step   *)
(***************************************************************************)
EXTENDS MonCommon

C17Init == [lastA |-> <<>>, v |-> {}]

ExpectedRes(class) ==
    CASE class = "too-big" -> {"Err:DataTooBig"}
      [] class = "bad-header" -> {"Err:Decode"}
      [] class = "own-identity" -> {"Err:DataFromOurselves"}
      [] class = "own-address" -> {"Err:DataFromOurselves"}
      [] class = "one-byte-after-header" -> {"Err:MalformedPacket"}
      [] class = "announce-with-data" -> {"Err:MalformedPacket"}
      [] class = "wrong-destination" -> {"Ok"}
      [] class = "bad-member-list" -> {"Err:Decode"}
      [] class = "stale-timer" -> {"Ok"}
      [] class = "not-undead" -> {"Err:NotUndead"}
      [] class = "same-identity" -> {"Err:SameIdentity"}
      [] class = "invalid-config" -> {"Err:InvalidConfig"}
      [] class = "empty-broadcast" -> {"Err:MalformedPacket"}
      [] class = "too-big-broadcast" -> {"Err:DataTooBig"}

Snapshot(o) == [res |-> o.res, out |-> o.out, post |-> o.post, hpost |-> o.hpost, hlog |-> o.hlog]

C17Step(m, o) ==
    IF "tag" \notin DOMAIN o \/ "lane" \notin DOMAIN o.tag THEN [m EXCEPT !.v = {}]
    ELSE IF o.tag.lane = "A" THEN [lastA |-> <<[k |-> o.tag.k, s |-> Snapshot(o)]>>, v |-> {}]
    ELSE IF "ins" \in DOMAIN o.tag
    THEN [m EXCEPT !.v =
            V(o.res \in ExpectedRes(o.tag.ins), "rejected-input-returned-an-unexpected-result")
            \cup V(o.out = <<>>, "rejected-input-caused-an-effect")
            \cup V(o.post = o.pre, "rejected-input-changed-the-public-state")
            \cup V(o.hpost = o.hpre, "rejected-input-changed-internal-state-or-consumed-randomness")
            \cup V(o.hlog = <<>>, "rejected-input-reached-the-broadcast-handler")]
    ELSE [m EXCEPT !.v =
            IF m.lastA = <<>> \/ m.lastA[1].k # o.tag.k THEN {"lanes-out-of-step"}
            ELSE LET a == m.lastA[1].s IN
                 V(a.res = o.res, "result-differs-from-the-history-without-the-rejected-inputs")
                 \cup V(a.out = o.out, "effects-differ-from-the-history-without-the-rejected-inputs")
                 \cup V(a.post = o.post, "public-state-differs-from-the-history-without-the-rejected-inputs")
                 \cup V(a.hpost = o.hpost, "internal-state-or-RNG-position-differs-from-the-history-without-the-rejected-inputs")
                 \cup V(a.hlog = o.hlog, "handler-calls-differ-from-the-history-without-the-rejected-inputs")]
=============================================================================
