------------------------------- MODULE MonHits -------------------------------
(***************************************************************************)
(* Vacuity guard: which interesting situations of each property did a      *)
(* trace actually exercise?  Hits(m, o) is the set of tags of one step (m: *)
(* the monitors' states before the step); the trace specification counts   *)
(* them and the check reports the counts in its evidence file.  No tag has *)
(* any influence on a verdict.                                             *)
(***************************************************************************)
EXTENDS MonC07, MonC08, MonC09, MonC10, MonC11, MonC12, MonC13, MonC15, MonC16, MonC19

Hits(m, o) ==
    LET S == OSends(o.out)
        N == Notifs(o.out)
        T == OTimers(o.out)
        isT(k) == o.call = "timer" /\ o.args.k = k
        E0 == o.hpre.upd
        E1 == o.hpost.upd
        tag(c, s) == IF c THEN {s} ELSE {}
    IN  {"send:" \o S[i].d.h.msg.k : i \in DOMAIN S}
        \cup {"notify:" \o N[i].k : i \in DOMAIN N}
        \cup {"res:" \o o.res}
        \* C09
        \cup tag(StaleSender(o), "C09:datagram-from-Down-or-superseded-sender")
        \cup tag(\E i \in DOMAIN N : N[i].k = "Rename", "C09:identity-replaced")
        \* C10
        \cup tag(o.post.id = o.pre.id /\ o.hpost.inc > o.hpre.inc, "C10:incarnation-bumped")
        \cup tag(o.post.id # o.pre.id, "C10:identity-changed")
        \cup tag(o.hpost.inc >= IncMax - 1, "C10:incarnation-at-MAX-1-or-MAX")
        \cup tag(Addr(o.post.id) # Addr(o.pre.id), "C10:identity-moved-to-another-address")
        \cup tag(SelfSuspicions(o, o.pre.id) # {}, "C10:suspicion-about-self-in-input")
        \* C11
        \cup tag(isT("Suspect") /\ o.args.tok = o.hpre.tok /\
                 LET r == RowOf(o.pre.state, Addr(o.args.id)) IN
                 r # <<>> /\ r[1].id = o.args.id /\ r[1].inc = o.args.inc /\ r[1].st # "D",
                 "C11:timeout-takes-effect")
        \cup tag(isT("Suspect") /\ o.args.tok # o.hpre.tok, "C11:stale-epoch-timeout")
        \cup tag(isT("Suspect") /\ o.args.tok = o.hpre.tok /\
                 LET r == RowOf(o.pre.state, Addr(o.args.id)) IN
                 r # <<>> /\ (r[1].id # o.args.id \/ r[1].inc # o.args.inc \/ r[1].st = "D"),
                 "C11:timeout-cancelled-(refuted/renewed/already-Down)")
        \cup tag(isT("RemoveDown") /\ Len(o.post.state) < Len(o.pre.state), "C11:Down-record-forgotten")
        \* C12
        \cup tag(isT("Probe") /\ m.C12.r.open /\ m.C12.r.evC, "C12:round-closed-with-evidence")
        \cup tag(isT("Probe") /\ \E i \in DOMAIN T : T[i].t.k = "Suspect", "C12:round-closed-with-suspicion")
        \cup tag(isT("Probe") /\ m.C12.r.open /\ m.C12.r.aborted, "C12:round-aborted")
        \cup tag(isT("Indirect") /\ \E i \in DOMAIN S : S[i].d.h.msg.k = "PingReq", "C12:indirect-requests-sent")
        \cup tag(o.call = "data" /\ o.res = "Err:IndirectForOurselves", "C12:relay-naming-self-rejected")
        \* C13
        \cup tag(o.call = "timer" /\ o.args.tok >= 0 /\ o.args.tok # o.hpre.tok, "C13:stale-epoch-timer-fired")
        \cup tag(o.res = "Err:IncompleteProbeCycle", "C13:incomplete-probe-cycle")
        \cup tag(o.hpost.tok # o.hpre.tok, "C13:epoch-changed")
        \* C15
        \cup tag(\E i \in DOMAIN E1 : E1[i].m \notin Contents(E0), "C15:update-accepted-for-broadcast")
        \cup tag(\E i \in DOMAIN E0 : E0[i].m \notin Contents(E1) /\ E0[i].tx - Carried(o.out, E0[i].m) = 0,
                 "C15:update-left-after-max_transmissions")
        \cup tag(\E i \in DOMAIN E0 : E0[i].m \notin Contents(E1) /\ E0[i].tx - Carried(o.out, E0[i].m) > 0,
                 "C15:update-superseded")
        \cup tag(Piggy(o.out) # <<>> /\ \E i \in DOMAIN E1 : Carried(o.out, E1[i].m) = 0,
                 "C15:datagram-with-entries-left-out")
        \* C16
        \cup tag(\E i \in DOMAIN o.hlog : o.hlog[i].v = 1, "C16:item-accepted")
        \cup tag(\E i \in DOMAIN o.hlog : o.hlog[i].v = 2, "C16:handler-error")
        \cup tag(WithItems(o.out) # <<>>, "C16:items-on-the-wire")
        \cup tag(o.call = "broadcast" /\ S # <<>>, "C16:broadcast()-sent")
        \cup tag(Len(o.hpost.cus) < Len(o.hpre.cus) + Cardinality({i \in DOMAIN o.hlog : o.hlog[i].v = 1})
                 /\ WithItems(o.out) = <<>>, "C16:item-invalidated")
        \* C19
        \cup tag(\E i \in DOMAIN S : IsRelay(o, S[i]), "C19:relay-towards-peer-named-target")
        \cup tag(\E i \in DOMAIN o.post.state : Addr(o.post.state[i].id) = Addr(o.post.id), "C19:own-address-record-in-table")
=============================================================================
