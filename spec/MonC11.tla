------------------------------- MODULE MonC11 -------------------------------
(***************************************************************************)
(* C11  Suspicion timeout takes effect iff unrefuted; Down is final until  *)
(*      forgotten.                                                         *)
(* The connection epoch of a timer is judged twice: by the hook token and, *)
(* independently of the implementation's own bookkeeping, by the epoch     *)
(* changes the environment can observe between its issue and its delivery  *)
(* (Idle, Defunct, Rejoin notifications, change_identity,                  *)
(* reuse_down_identity): a timeout issued before such an event is stale    *)
(* whatever its token says.                                                *)
(***************************************************************************)
EXTENDS MonCommon

\* issued: every suspicion timer the instance ever handed to submit_after; timers that were
\* never issued (forged) are outside the property's quantifier
\* iss2: <<timer, observed epoch at issue>>;  ep: observed epoch changes so far
C11Init == [issued |-> {}, iss2 |-> {}, ep |-> 0, v |-> {}]

\* walks the effects of a call in order: <<epoch, pairs>>
RECURSIVE C11Walk(_, _, _)
C11Walk(out, ep, acc) ==
    IF out = <<>> THEN <<ep, acc>>
    ELSE LET x == Head(out) IN
         IF x.k = "notify" /\ x.n.k \in {"Idle", "Defunct", "Rejoin"} THEN C11Walk(Tail(out), ep + 1, acc)
         ELSE IF x.k = "timer" /\ x.t.k = "Suspect" THEN C11Walk(Tail(out), ep, acc \cup {<<x.t, ep>>})
         ELSE C11Walk(Tail(out), ep, acc)

\* stale by observation: issued (only) in earlier observed epochs, all of them within the width of the token
ObsStale(m, t) ==
    LET E == {p[2] : p \in {q \in m.iss2 : q[1] = t}} IN
    E # {} /\ m.ep \notin E /\ \A e \in E : m.ep - e < TokenMod

SuspectTimeout(m, o) ==
    LET t == o.args
        r == RowOf(o.pre.state, Addr(t.id))
        r2 == RowOf(o.post.state, Addr(t.id))
        eligible == /\ t.tok = o.hpre.tok /\ ~ObsStale(m, t)
                    /\ r # <<>> /\ r[1].id = t.id /\ r[1].inc = t.inc /\ r[1].st # "D"
        S == OSends(o.out)
        N == Notifs(o.out)
        T == OTimers(o.out)
        cfg == o.hpre.cfg
    IN IF eligible
       THEN V(r2 = <<Mem(t.id, t.inc, "D")>>, "unrefuted-timeout-did-not-turn-member-Down")
            \cup V(\E i \in DOMAIN N : N[i] = Note("MemberDown", t.id, NoId), "no-MemberDown-on-timeout")
            \cup V(\E i \in DOMAIN T : T[i].t = TmRemoveDown(t.id) /\ T[i].after = cfg.rda,
                   "forgetting-not-scheduled-after-remove_down_after")
            \cup V(\E i \in DOMAIN o.hpost.upd : o.hpost.upd[i].m = Mem(t.id, t.inc, "D"),
                   "Down-update-not-queued-for-gossip")
            \* (a TurnUndead that cannot be encoded - max_packet_size below the header - is reported to the caller as
            \*  Err(Encode); everything else the timeout entails must have happened all the same)
            \cup V((cfg.notifydown /\ o.res = "Ok") =>
                      Cardinality({i \in DOMAIN S : S[i].dst = t.id /\ S[i].d.h.msg.k = "TurnUndead"}) = 1,
                   "TurnUndead-not-sent-although-configured")
            \cup V(~cfg.notifydown => S = <<>>, "datagram-sent-although-notify_down_members-is-off")
            \cup V(o.res = "Ok" \/ o.res = "Err:Encode", "timeout-returned-an-error")
       ELSE V(o.res = "Ok", "cancelled/stale-timeout-returned-an-error")
            \cup V(S = <<>>, "cancelled/stale-timeout-sent-a-datagram")
            \cup V(N = <<>>, "cancelled/stale-timeout-notified")
            \cup V(T = <<>>, "cancelled/stale-timeout-scheduled-a-timer")
            \cup V(o.post = o.pre, "cancelled/stale-timeout-changed-state")
            \cup V([o.hpost EXCEPT !.draws = 0] = [o.hpre EXCEPT !.draws = 0],
                   "cancelled/stale-timeout-changed-internal-state")

\* every Down row stays, is forgotten by exactly its forget-timer, or is superseded
DownFinal(o) ==
    LET D == {i \in DOMAIN o.pre.state : o.pre.state[i].st = "D"} IN
    V(\A i \in D :
         LET old == o.pre.state[i]
             r == RowOf(o.post.state, Addr(old.id))
         IN \/ (r # <<>> /\ r[1].id = old.id /\ r[1].st = "D")
            \/ (r = <<>> /\ o.call = "timer" /\ o.args.k = "RemoveDown" /\ o.args.id = old.id)
            \/ (r # <<>> /\ Wins(r[1].id, old.id)),
      "Down-record-revived-or-removed-other-than-by-its-forget-timer")

C11Step(m, o) ==
    LET start == IF (o.call = "change_identity" /\ o.post.id # o.pre.id) \/ (o.call = "reuse" /\ o.res = "Ok")
                 THEN m.ep + 1 ELSE m.ep
        w == C11Walk(o.out, start, m.iss2)
    IN
    [issued |-> m.issued \cup {e.t : e \in {x \in Range(OTimers(o.out)) : x.t.k = "Suspect"}},
     iss2 |-> w[2], ep |-> w[1],
     v |-> DownFinal(o)
           \* (the case-table driver c11 constructs its timers: there every timeout is judged)
           \cup (IF o.call = "timer" /\ o.args.k = "Suspect" /\ (o.args \in m.issued \/ o.env.driver = "c11")
                 THEN SuspectTimeout(m, o) ELSE {})
           \cup (IF o.call = "timer" /\ o.args.k = "RemoveDown"
                 THEN V(\A i \in DOMAIN o.pre.state :
                            (o.pre.state[i].id # o.args.id \/ o.pre.state[i].st # "D") =>
                                RowOf(o.post.state, Addr(o.pre.state[i].id)) = <<o.pre.state[i]>>,
                        "forget-timer-removed-another-record")
                      \cup V(o.out = <<>> /\ o.res = "Ok", "forget-timer-had-side-effects")
                 ELSE {})]
=============================================================================
