------------------------------- MODULE MonC09 -------------------------------
(***************************************************************************)
(* C09  One record per address; identities only move forward; own address  *)
(*      never active.  Uses iter_membership_state, Rename notifications    *)
(*      and the call's arguments.                                          *)
(* History: told   - addresses the instance was ever told about            *)
(*          maxgen - per address, highest generation recorded since the    *)
(*                   address was last forgotten                            *)
(***************************************************************************)
EXTENDS MonCommon

C09Init == [told |-> {}, maxgen |-> <<>>, v |-> {}]

ToldBy(o) ==
    (IF o.call = "data" /\ o.args.hok
     THEN {Addr(o.args.h.src)} \cup {Addr(o.args.mem[i].id) : i \in DOMAIN o.args.mem}
     ELSE {})
    \cup (IF o.call = "apply_many" THEN {Addr(o.args.updates[i].id) : i \in DOMAIN o.args.updates} ELSE {})
    \cup (IF o.call = "timer" /\ o.args.id # NoId THEN {Addr(o.args.id)} ELSE {})
    \cup {Addr(o.pre.id)}

\* the sender is a Down or superseded identity according to the state before the call
StaleSender(o) ==
    /\ DataProcessed(o)
    /\ LET r == RowOf(o.pre.state, Addr(o.args.h.src)) IN
       /\ r # <<>>
       /\ \/ (r[1].id = o.args.h.src /\ r[1].st = "D")
          \/ Wins(r[1].id, o.args.h.src)

C09Step(m, o) ==
    LET st == o.post.state
        told == m.told \cup ToldBy(o)
        addrs == AddrsOf(st)
        own == Addr(o.post.id)
        renames == Notifs(o.out)
        \* rows whose identity changed in this call
        Changed == {a \in addrs \cap AddrsOf(o.pre.state) :
                        RowOf(st, a)[1].id # RowOf(o.pre.state, a)[1].id}
        mg == [a \in addrs |->
                 LET g == Gen(RowOf(st, a)[1].id) IN
                 IF a \in DOMAIN m.maxgen THEN Max(g, m.maxgen[a]) ELSE g]
        v == V(Cardinality(addrs) = Len(st), "two-records-with-the-same-address")
             \cup V(\A i \in DOMAIN st : ~(Addr(st[i].id) = own /\ IsActive(st[i])),
                    "own-address-listed-as-active-member")
             \cup V(Len(st) <= Cardinality(told), "membership-larger-than-addresses-told")
             \cup V(\A a \in Changed :
                        /\ Wins(RowOf(st, a)[1].id, RowOf(o.pre.state, a)[1].id)
                        /\ \E i \in DOMAIN renames :
                              renames[i].k = "Rename" /\ renames[i].id2 = RowOf(st, a)[1].id,
                    "identity-replaced-without-winning-or-without-Rename")
             \cup V(\A a \in addrs : a \in DOMAIN m.maxgen => Gen(RowOf(st, a)[1].id) >= m.maxgen[a],
                    "fell-back-to-a-superseded-identity")
             \cup (IF StaleSender(o)
                   THEN V(\A a \in (AddrsOf(o.pre.state) \cup addrs) \ {Addr(o.args.h.src)} :
                               RowOf(st, a) = RowOf(o.pre.state, a),
                          "payload-of-down/superseded-sender-changed-membership")
                        \cup V(o.hlog = <<>>, "custom-items-of-down/superseded-sender-reached-handler")
                        \cup V(RowOf(st, Addr(o.args.h.src)) = RowOf(o.pre.state, Addr(o.args.h.src)),
                               "down/superseded-sender-changed-its-own-record")
                   ELSE {})
             \* what a datagram does not mention it cannot change: the payload of an earlier, discarded datagram
             \* (Down / superseded sender, rejected member list) must not surface with a later one
             \cup (IF o.call = "data"
                   THEN V(\A a \in (AddrsOf(o.pre.state) \cup addrs) \ (ToldBy(o) \cup {own}) :
                               RowOf(st, a) = RowOf(o.pre.state, a),
                          "datagram-changed-the-record-of-an-address-it-does-not-mention")
                   ELSE {})
    IN [told |-> told, maxgen |-> mg, v |-> v]
=============================================================================
