SPECIFICATION Spec
CONSTANTS
  IncMax = 3
  TokenMod = 4
  ProbeMod = 4
  Fixes = {"654ac52", "3f5c312", "66b62cc", "7418747", "f6702a7", "73fde95", "ea3a2f4", "6ca130a", "a23716c"}
  Keys = {1, 2, 3}
  Sizes = {3, 5}
  MaxTx = 3
  MaxSpace = 18
  Overhead = 2
  MaxOps = 5
INVARIANTS OnePerKey Accounting LeavesAfterExactlyMaxTx NothingFittingOmitted CanonIsLegal
CHECK_DEADLOCK FALSE
