SPECIFICATION Spec
CONSTANTS
  IncMax = 3
  TokenMod = 4
  Fixes = {"654ac52", "3f5c312", "66b62cc", "7418747", "f6702a7", "73fde95", "ea3a2f4", "6ca130a", "a23716c"}
  ProbeMod = 4
  NN = 3
  Horizon = 67
  Mode = "c02"
  Pol = "none"
  NotifyDown = FALSE
  MaxTx = 1
  PGossip = TRUE
  PAnnDown = FALSE
  PAnnounce = TRUE
INVARIANTS MonitorsQuiet C02DiscoveryStrict
VIEW View
CHECK_DEADLOCK FALSE
