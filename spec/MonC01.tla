------------------------------- MODULE MonC01 -------------------------------
(***************************************************************************)
(* C01  Membership knowledge is a join-semilattice (SWIM precedence).      *)
(*                                                                         *)
(* Rows are compared per address.  Leq is the precedence order of the      *)
(* statement: a winning identity supersedes; Down overrides everything;    *)
(* otherwise the higher incarnation wins and, at equal incarnation,        *)
(* Suspect overrides Alive.  Approx ignores the incarnation remembered     *)
(* next to Down (as the statement allows).  A row is <<>> (unknown         *)
(* address) or <<member>>.                                                 *)
(* Observed through apply_many + iter_membership_state only.               *)
(***************************************************************************)
EXTENDS MonCommon

Norm(m) == IF m.st = "D" THEN [m EXCEPT !.inc = 0] ELSE m
Approx(r, s) == (r = <<>> /\ s = <<>>) \/ (r # <<>> /\ s # <<>> /\ Norm(r[1]) = Norm(s[1]))

\* record-level order
LeqM(m, n) ==
    \/ Wins(n.id, m.id)
    \/ /\ n.id = m.id
       /\ \/ n.st = "D"
          \/ (m.st # "D" /\ (n.inc > m.inc \/ (n.inc = m.inc /\ Rank(n.st) >= Rank(m.st))))
Leq(r, s) == r = <<>> \/ (s # <<>> /\ LeqM(r[1], s[1]))

JoinM(m, n) == IF LeqM(m, n) THEN n ELSE m
JoinRow(r, u) == IF r = <<>> THEN <<u>> ELSE <<JoinM(r[1], u)>>

\* the view of a state sequence as a function of the address
View(state, addrs) == [a \in addrs |-> RowOf(state, a)]
SameView(s, t, addrs) == \A a \in addrs : Approx(RowOf(s, a), RowOf(t, a))

C01Init == [v |-> {}]

\* per call: every third-party row only moves forward, and moves exactly to the join of what
\* was offered for that address (checked when a single update concerns the address)
C01Step(m, o) ==
    LET own == Addr(o.pre.id)
        addrs == (AddrsOf(o.pre.state) \cup AddrsOf(o.post.state)) \ {own, Addr(o.post.id)}
        U == UpdatesIn(o)
        hdr == IF DataProcessed(o) THEN <<Mem(o.args.h.src, o.args.h.inc, "A")>> ELSE <<>>
        offered(a) == SelectSeq(hdr \o U, LAMBDA u : Addr(u.id) = a)
        forget == o.call = "timer" /\ o.args.k = "RemoveDown"
        RECURSIVE JoinAll(_, _)
        JoinAll(r, us) == IF us = <<>> THEN r ELSE JoinAll(JoinRow(r, Head(us)), Tail(us))
    IN [v |-> V(\A a \in addrs : forget \/ Leq(RowOf(o.pre.state, a), RowOf(o.post.state, a)),
                "record-moved-backwards-in-the-precedence-order")
              \cup V((o.call = "apply_many" /\ o.res = "Ok" /\ o.pre.id = o.post.id) =>
                        \A a \in addrs : Approx(RowOf(o.post.state, a), JoinAll(RowOf(o.pre.state, a), offered(a))),
                     "apply_many-result-is-not-the-join-of-state-and-updates")]

\* group events written by the C01 driver
C01Group(e) ==
    CASE e.kind = "perm" ->
           \* the same multiset applied in different orders / multiplicities
           V(\A i \in DOMAIN e.finals : SameView(e.finals[i], e.finals[1], Range(e.addrs)),
             "view-depends-on-order-or-multiplicity-of-delivery")
      [] e.kind = "reapply" ->
           V(e.before = e.after /\ e.effects = 0, "re-applying-own-full-state-changed-something")
      [] e.kind = "exchange" ->
           V(SameView(e.a, e.b, Range(e.addrs)), "instances-disagree-after-exchanging-full-states")
      [] OTHER -> {}
=============================================================================
