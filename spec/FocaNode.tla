------------------------------ MODULE FocaNode ------------------------------
(***************************************************************************)
(* One Foca instance (src/lib.rs) as a state machine.                      *)
(*                                                                         *)
(* Every public call is an operator                                        *)
(*     Call(st, args, tape, hl, dbg) -> [st, res, out, ok, ins, hcalls]    *)
(* written in state-monad style over a context record that follows the     *)
(* Rust control flow: early returns, `?` propagation and the order in      *)
(* which the Runtime callbacks are made.  Everything the code decides with *)
(* its RNG (and the unstable tie-break of the backlog heap) is read from   *)
(* the tape and checked for validity (ok = FALSE when the tape holds a     *)
(* choice the code may not make):                                          *)
(*   tape.sends : per emitted datagram, in order: destination, member      *)
(*                section and custom items                                 *)
(*   tape.order : the member order after the call (used by Members::next   *)
(*                when a reshuffle is due)                                 *)
(*   tape.pind  : the helpers registered in the probe after the call (only *)
(*                used to name the helper whose PingReq failed to encode)  *)
(* hl is the BroadcastHandler's verdict log (environment), dbg tells       *)
(* whether debug assertions are compiled in.                               *)
(*                                                                         *)
(* Node state:                                                             *)
(*   id pol codec hrel hpred   identity, renew policy, environment params  *)
(*   inc conn tok              incarnation, "D"/"C"/"U", timer token       *)
(*   mem cursor nactive        Members                                     *)
(*   probe                     Probe                                       *)
(*   upd cus                   the two Broadcasts backlogs                 *)
(*   cfg bufcap                Config, send_buf.capacity()                 *)
(***************************************************************************)
EXTENDS Members, Backlog, Probe

NodeInit(id, pol, codec, hrel, hpred, cfg) ==
    [id |-> id, pol |-> pol, codec |-> codec, hrel |-> hrel, hpred |-> hpred,
     inc |-> 0, conn |-> "D", tok |-> 0,
     mem |-> <<>>, cursor |-> 0, nactive |-> 0,
     probe |-> ProbeInit, upd |-> <<>>, cus |-> <<>>,
     cfg |-> cfg, bufcap |-> cfg.maxpkt]

EmptyTape == [sends |-> <<>>, order |-> <<>>, pind |-> <<>>, auto |-> FALSE, pref |-> <<>>, hv |-> 0, eres |-> ""]

(***************************************************************************)
(* Model checking does not enumerate tapes.  With tape.auto the choices    *)
(* are made by the specification itself, steered by tape.pref (a priority  *)
(* order over identities chosen by the environment): members are chosen /  *)
(* shuffled in pref order, feeds and fills are the canonical ones, and the *)
(* BroadcastHandler answers tape.hv for every item.  Each of these is one  *)
(* of the behaviours the validity predicates below allow.                  *)
(***************************************************************************)
Ranked(S, pref) ==
    LET inPref == SelectSeq(pref, LAMBDA x : x \in S)
        rest == S \ Range(pref)
        RECURSIVE Enum(_)
        Enum(T) == IF T = {} THEN <<>> ELSE LET x == CHOOSE y \in T : TRUE IN <<x>> \o Enum(T \ {x})
    IN inPref \o Enum(rest)

Ctx(st, tape, hl, dbg) ==
    [st |-> st, out |-> <<>>, sends |-> tape.sends, ti |-> 1, order |-> tape.order,
     pind |-> tape.pind, auto |-> tape.auto, pref |-> tape.pref, hvAuto |-> tape.hv, eres |-> tape.eres,
     ok |-> TRUE, err |-> "", panic |-> FALSE, r |-> FALSE, hv |-> 0,
     ins |-> <<>>, hl |-> hl, hi |-> 1, hcalls |-> <<>>, dbg |-> dbg]

Emit(c, e) == [c EXCEPT !.out = Append(@, e)]
Fail(c, kind) == [c EXCEPT !.err = kind]
Live(c) == c.err = "" /\ ~c.panic

Finish(c, okRes) ==
    [st |-> c.st,
     res |-> IF c.panic THEN "Panic" ELSE IF c.err = "" THEN okRes ELSE c.err,
     out |-> c.out,
     ok |-> c.ok /\ (c.panic \/ c.auto \/ (c.ti = Len(c.sends) + 1 /\ c.hi = Len(c.hl) + 1)),
     ins |-> c.ins, hcalls |-> c.hcalls]

-----------------------------------------------------------------------------
(* send_message (lib.rs:1420)                                              *)

Dgram(h, hs, tally, mem, items, len) ==
    [h |-> h, hs |-> hs, tally |-> tally, mem |-> mem, items |-> items, len |-> len]

UpdEntryOf(upd, codec, m) ==
    IF \E i \in DOMAIN upd : upd[i].m = m
    THEN upd[CHOOSE i \in DOMAIN upd : upd[i].m = m]
    ELSE [m |-> m, sz |-> MSize(codec, m), tx |-> 0]

ItemOf(e) == [key |-> e.key, ver |-> e.ver, sz |-> e.sz, intact |-> e.intact]

\* wire items -> backlog entries: identical items are taken by decreasing tx
RECURSIVE MatchItems(_, _)
MatchItems(cus, items) ==
    IF items = <<>> THEN <<>>
    ELSE LET it == Head(items)
             C == {i \in DOMAIN cus : ItemOf(cus[i]) = it}
         IN IF C = {} THEN <<[key |-> it.key, ver |-> it.ver, sz |-> it.sz, intact |-> it.intact, tx |-> 0]>>
                           \o MatchItems(cus, Tail(items))
            ELSE LET b == CHOOSE i \in C : \A j \in C : cus[i].tx >= cus[j].tx
                 IN <<cus[b]>> \o MatchItems(RemoveOne(cus, cus[b]), Tail(items))

\* estimate_feed_capacity + choose_active_members + encode-until-failure
FeedOk(st, dst, rem, M) ==
    LET elig == {m \in ActiveRecs(st.mem) : m.id # dst}
        idlen == (st.cfg.maxpkt - rem) \div 2
        wanted == Max(IF idlen > 0 THEN rem \div idlen ELSE 0, 5)
        n == Min(wanted, Cardinality(elig))
        used == SumSeq([i \in DOMAIN M |-> MSize(st.codec, M[i])])
    IN /\ IsDistinct(M)
       /\ Range(M) \subseteq elig
       /\ Len(M) <= n
       /\ used <= rem
       /\ (Len(M) < n => \E e \in elig \ Range(M) : MSize(st.codec, e) > rem - used
                                                     \/ ~Representable(st.codec, e.id))

\* a canonical feed: eligible members in pref order, as many as fit (one legal behaviour)
RECURSIVE TakeFitting(_, _, _, _)
TakeFitting(codec, ms, space, n) ==
    IF ms = <<>> \/ n = 0 THEN <<>>
    ELSE IF MSize(codec, Head(ms)) <= space
         THEN <<Head(ms)>> \o TakeFitting(codec, Tail(ms), space - MSize(codec, Head(ms)), n - 1)
         ELSE <<>>

CanonFeed(st, dst, rem, pref) ==
    LET elig == {m \in ActiveRecs(st.mem) : m.id # dst}
        idlen == (st.cfg.maxpkt - rem) \div 2
        wanted == Max(IF idlen > 0 THEN rem \div idlen ELSE 0, 5)
        n == Min(wanted, Cardinality(elig))
        ids == Ranked({m.id : m \in elig}, pref)
        ms == [i \in DOMAIN ids |-> CHOOSE m \in elig : m.id = ids[i]]
    IN TakeFitting(st.codec, ms, rem, n)

HeaderFits(st, dst, msg) ==
    LET h == Hdr(st.id, st.inc, dst, msg) IN
    /\ Representable(st.codec, st.id) /\ Representable(st.codec, dst)
    /\ (HasId(msg.k) => Representable(st.codec, msg.id))
    /\ HSize(st.codec, h) <= st.cfg.maxpkt

SendMessage(c, dst, msg) ==
    IF ~Live(c) THEN c ELSE
    LET st == c.st
        h == Hdr(st.id, st.inc, dst, msg)
        hs == HSize(st.codec, h)
        maxp == st.cfg.maxpkt
    IN
    IF c.dbg /\ st.bufcap # maxp THEN [c EXCEPT !.panic = TRUE]
    ELSE IF ~HeaderFits(st, dst, msg) THEN Fail(c, "Err:Encode")
    ELSE
      LET have == c.auto \/ c.ti <= Len(c.sends)
          rem0 == maxp - hs
          piggy == NeedsPiggyback(msg.k) /\ rem0 > 2
          rem1 == IF piggy THEN rem0 - 2 ELSE rem0
          isFeed == msg.k = "Feed"
          autoMem == IF ~piggy THEN <<>>
                     ELSE IF isFeed THEN CanonFeed(st, dst, rem1, c.pref)
                     ELSE LET f == CanonFill(st.upd, rem1, 0) IN [i \in DOMAIN f |-> f[i].m]
          autoUsedM == SumSeq([i \in DOMAIN autoMem |-> MSize(st.codec, autoMem[i])])
          autoItems == IF (rem1 - autoUsedM) > 0 /\ AllowCustom(msg.k) /\ PredHolds(st.hpred, dst)
                       THEN LET f == CanonFill(st.cus, rem1 - autoUsedM, 2) IN [i \in DOMAIN f |-> ItemOf(f[i])]
                       ELSE <<>>
          t == IF c.auto THEN [dst |-> dst, mem |-> autoMem, items |-> autoItems]
               ELSE IF have THEN c.sends[c.ti] ELSE [dst |-> dst, mem |-> <<>>, items |-> <<>>]
          memSeq == t.mem
          updInc == IF piggy /\ ~isFeed
                    THEN [i \in DOMAIN memSeq |-> UpdEntryOf(st.upd, st.codec, memSeq[i])]
                    ELSE <<>>
          memOk == IF ~piggy THEN memSeq = <<>>
                   ELSE IF isFeed THEN FeedOk(st, dst, rem1, memSeq)
                   ELSE FillOk(st.upd, rem1, updInc, 0)
          usedM == IF ~piggy THEN 0
                   ELSE IF isFeed THEN SumSeq([i \in DOMAIN memSeq |-> MSize(st.codec, memSeq[i])])
                   ELSE FillUsed(updInc, 0)
          upd2 == IF piggy /\ ~isFeed /\ memOk THEN AfterFill(st.upd, updInc) ELSE st.upd
          rem2 == rem1 - usedM
          addCus == rem2 > 0 /\ AllowCustom(msg.k) /\ PredHolds(st.hpred, dst)
          cusInc == IF addCus THEN MatchItems(st.cus, t.items) ELSE <<>>
          cusOk == IF addCus THEN FillOk(st.cus, rem2, cusInc, 2) ELSE t.items = <<>>
          cus2 == IF addCus /\ cusOk THEN AfterFill(st.cus, cusInc) ELSE st.cus
          usedC == IF addCus THEN FillUsed(cusInc, 2) ELSE 0
          d == Dgram(h, hs, IF piggy THEN Len(memSeq) ELSE -1, memSeq, t.items,
                     hs + (IF piggy THEN 2 ELSE 0) + usedM + usedC)
      IN Emit([c EXCEPT !.st.upd = upd2, !.st.cus = cus2, !.ti = @ + 1,
                        !.ok = @ /\ have /\ memOk /\ cusOk],
              EffSend(dst, d))

RECURSIVE SendEach(_, _, _)
SendEach(c, dsts, msg) ==
    IF dsts = <<>> \/ ~Live(c) THEN c
    ELSE SendEach(SendMessage(c, Head(dsts), msg), Tail(dsts), msg)

(***************************************************************************)
(* choose_*_members(k, ...) followed by one send per chosen member.  The   *)
(* chosen members are read off the tape (destinations of the next sends).  *)
(* MsgFor(dst) gives the message for each destination.  If fewer sends     *)
(* were observed than members had to be chosen, the only legal reason is   *)
(* an Encode failure for the next (unobserved) destination.                *)
(***************************************************************************)
WouldPanic(c) == c.dbg /\ c.st.bufcap # c.st.cfg.maxpkt

ChooseAndSend(c, k, msg, elig) ==
    IF ~Live(c) THEN c ELSE
    IF Min(k, Cardinality(elig)) > 0 /\ WouldPanic(c) THEN [c EXCEPT !.panic = TRUE] ELSE
    LET n == Min(k, Cardinality(elig))
        avail == IF c.auto THEN n ELSE Len(c.sends) - c.ti + 1
        m == Min(n, Max(avail, 0))
        dsts == IF c.auto THEN SubSeq(Ranked(elig, c.pref), 1, n)
                ELSE [i \in 1..m |-> c.sends[c.ti + i - 1].dst]
        valid == IsDistinct(dsts) /\ Range(dsts) \subseteq elig
        c1 == SendEach([c EXCEPT !.ok = @ /\ valid], dsts, msg)
    IN IF m = n \/ ~Live(c1) THEN c1
       ELSE \* somebody else was chosen but nothing was sent: must be an encode failure
            IF \E e \in elig \ Range(dsts) : ~HeaderFits(c1.st, e, msg)
            THEN Fail(c1, "Err:Encode")
            ELSE [c1 EXCEPT !.ok = FALSE]

Gossip(c) == ChooseAndSend(c, c.st.cfg.fanout, Msg("Gossip", 0, NoId), ActiveIds(c.st.mem))

-----------------------------------------------------------------------------
(* connection state (lib.rs:449, 1350-1405, 1113)                          *)

BecomeConnected(c) ==
    LET st == c.st
        c1 == Emit([c EXCEPT !.st.conn = "C"], EffTimer(TmProbe(st.tok), st.cfg.period))
        c2 == IF st.cfg.pa # <<>> THEN Emit(c1, EffTimer(TmAnnounce(st.tok), st.cfg.pa[1].f)) ELSE c1
        c3 == IF st.cfg.pad # <<>> THEN Emit(c2, EffTimer(TmAnnounceDown(st.tok), st.cfg.pad[1].f)) ELSE c2
        c4 == IF st.cfg.pg # <<>> THEN Emit(c3, EffTimer(TmGossip(st.tok), st.cfg.pg[1].f)) ELSE c3
    IN Emit(c4, EffNotify(Note("Active", NoId, NoId)))

BecomeDisconnected(c) ==
    Emit([c EXCEPT !.st.conn = "D", !.st.tok = (@ + 1) % TokenMod, !.st.probe = ProbeClear(@)],
         EffNotify(Note("Idle", NoId, NoId)))

BecomeUndead(c) ==
    Emit([c EXCEPT !.st.conn = "U", !.st.tok = (@ + 1) % TokenMod, !.st.probe = ProbeClear(@)],
         EffNotify(Note("Defunct", NoId, NoId)))

AdjustConnectionState(c) ==
    IF ~Live(c) THEN c
    ELSE IF c.st.conn = "D" /\ c.st.nactive > 0 THEN BecomeConnected(c)
    ELSE IF c.st.conn = "C" /\ c.st.nactive = 0 THEN BecomeDisconnected(c)
    ELSE c

ResetSt(st) == [st EXCEPT !.conn = "D", !.inc = 0, !.tok = (@ + 1) % TokenMod, !.probe = ProbeClear(@)]

-----------------------------------------------------------------------------
(* apply_update / handle_apply_summary (lib.rs:1239-1313)                  *)

HandleApplySummary(c, s, u, bcast) ==
    \* serialize_member(update)? - the codec may refuse the member (the harness' tiny codec cannot
    \* represent generations above 15): the error is returned before any effect of the summary
    IF s.ok /\ bcast /\ ~Representable(c.st.codec, u.id) THEN Fail(c, "Err:Encode") ELSE
    LET st == c.st
        c1 == IF s.ok /\ bcast
              THEN [c EXCEPT !.st.upd = AddUpdate(@, st.codec, u, st.cfg.maxtx)]
              ELSE c
        c2 == IF s.ok /\ ~s.activeNow
              THEN Emit(c1, EffTimer(TmRemoveDown(u.id), st.cfg.rda))
              ELSE c1
        c3 == IF s.conflict = "Replaced"
              THEN Emit(c2, EffNotify(Note("Rename", s.old, u.id)))
              ELSE c2
    IN IF s.changed
       THEN Emit(c3, EffNotify(Note(IF s.activeNow THEN "MemberUp" ELSE "MemberDown", u.id, NoId)))
       ELSE c3

\* returns the context with r = update_is_active
ApplyUpdate(c, u, bcast) ==
    LET s == Apply(c.st.mem, c.st.nactive, u)
        c1 == [c EXCEPT !.st.mem = s.mem, !.st.nactive = s.nactive,
                        !.ins = IF s.inserted THEN Append(@, u.id)
                                ELSE IF s.conflict = "Replaced"
                                THEN [i \in DOMAIN @ |-> IF @[i] = s.old THEN u.id ELSE @[i]]
                                ELSE @]
        active == IF s.conflict \in {"Lost", "Failed"} THEN FALSE ELSE s.activeNow
    IN [HandleApplySummary(c1, s, u, bcast) EXCEPT !.r = active]

-----------------------------------------------------------------------------
(* change_identity, attempt_rejoin, handle_self_update (lib.rs:317,1555,1640) *)

ChangeIdentity(c, new) ==
    IF c.st.id = new THEN Fail(c, "Err:SameIdentity")
    ELSE LET st == c.st
             prevDown == st.conn = "U"
             s1 == [ResetSt(st) EXCEPT !.id = new]
             s2 == IF prevDown THEN s1
                   ELSE [s1 EXCEPT !.upd = AddUpdate(@, st.codec, DownOf(st.id), st.cfg.maxtx)]
         IN IF ~prevDown /\ ~Representable(st.codec, st.id)
            THEN Fail([c EXCEPT !.st = s1], "Err:Encode")     \* serialize_member(down(previous))? after the switch
            ELSE Gossip([c EXCEPT !.st = s2])

\* r = TRUE when the instance switched to a renewed identity
AttemptRejoin(c) ==
    LET new == Renew(c.st.pol, c.st.id) IN
    IF new = <<>> THEN [c EXCEPT !.r = FALSE]
    ELSE IF new[1] = c.st.id THEN [c EXCEPT !.r = FALSE]
    ELSE IF ~Wins(new[1], c.st.id) THEN [c EXCEPT !.r = FALSE]
    ELSE LET c1 == ChangeIdentity(c, new[1]) IN
         \* (fix) the identity has changed even if the gossip failed to encode: Rejoin is notified
         \* before the error is propagated
         IF c1.panic THEN c1
         ELSE IF ~Live(c1) THEN (IF Fixed("73fde95") THEN Emit(c1, EffNotify(Note("Rejoin", new[1], NoId))) ELSE c1)
         ELSE [Emit(c1, EffNotify(Note("Rejoin", new[1], NoId))) EXCEPT !.r = TRUE]

RejoinOrUndead(c) ==
    LET c1 == AttemptRejoin(c) IN
    IF ~Live(c1) THEN c1 ELSE IF c1.r THEN c1 ELSE BecomeUndead(c1)

HandleSelfUpdate(c, inc, state) ==
    IF ~Live(c) THEN c
    ELSE IF state = "S" /\ c.st.conn = "U" /\ Fixed("f6702a7") THEN c   \* (fix f6702a7) a dead identity does not refute
    ELSE IF state = "S" THEN
        LET increase == c.st.inc <= inc
            mx == Max(inc, c.st.inc)
        \* (fix a23716c) a suspicion about an older incarnation has been refuted already: it is not "unrefutable"
        \* even when the instance lives at the maximum incarnation
        IN IF mx = IncMax /\ (increase \/ ~Fixed("a23716c")) THEN RejoinOrUndead(c)
           ELSE Gossip(IF increase THEN [c EXCEPT !.st.inc = Min(mx + 1, IncMax)] ELSE c)
    ELSE IF state = "A" THEN c
    ELSE RejoinOrUndead(c)

-----------------------------------------------------------------------------
(* apply_many (lib.rs:396)                                                 *)

RECURSIVE ApplyEach(_, _, _)
ApplyEach(c, us, bcast) ==
    IF us = <<>> \/ ~Live(c) THEN c
    ELSE LET u == Head(us)
             c1 == IF u.id = c.st.id THEN HandleSelfUpdate(c, u.inc, u.st)
                   ELSE IF Addr(u.id) = Addr(c.st.id) THEN ApplyUpdate(c, DownOf(u.id), bcast)
                   ELSE ApplyUpdate(c, u, bcast)
         IN ApplyEach(c1, Tail(us), bcast)

ApplyMany(c, us, bcast) == AdjustConnectionState(ApplyEach(c, us, bcast))

-----------------------------------------------------------------------------
(* custom broadcasts (lib.rs:591, 1315)                                    *)

CusEntry(it, maxtx) == [key |-> it.key, ver |-> it.ver, sz |-> it.sz, intact |-> it.intact, tx |-> maxtx]

\* one call into the BroadcastHandler: verdict read from the log (hv)
HandlerCall(c, item, from) ==
    LET have == c.auto \/ c.hi <= Len(c.hl)
        e == IF c.auto THEN [item |-> item, from |-> from, v |-> c.hvAuto]
             ELSE IF have THEN c.hl[c.hi] ELSE [item |-> item, from |-> from, v |-> 0]
    IN [c EXCEPT !.hi = @ + 1, !.hv = e.v,
                 !.ok = @ /\ have /\ e.item = item /\ e.from = from,
                 !.hcalls = Append(@, [item |-> item, from |-> from])]

AcceptItem(c, item) ==
    LET rel == c.st.hrel
        e == CusEntry(item, c.st.cfg.maxtx)
    IN [c EXCEPT !.st.cus = AddOrReplace(@, e, LAMBDA new, old : Invalidates(rel, new, old))]

\* returns the context with err set to the custom-broadcast result (not propagated by `?`)
RECURSIVE ReceiveItems(_, _, _)
ReceiveItems(c, items, from) ==
    IF items = <<>> THEN c
    ELSE LET c1 == HandlerCall(c, Head(items), from) IN
         IF c1.hv = 2 THEN Fail(c1, "Err:CustomBroadcast")
         ELSE ReceiveItems(IF c1.hv = 1 THEN AcceptItem(c1, Head(items)) ELSE c1, Tail(items), from)

HandleCustomBroadcasts(c, d, from) ==
    LET c1 == ReceiveItems(c, d.items, from) IN
    IF c1.err # "" THEN c1
    ELSE IF ~d.tailok THEN Fail(c1, "Err:MalformedPacket")
    ELSE c1

-----------------------------------------------------------------------------
(* probe_random_member (lib.rs:1126)                                       *)

Reorder(mem, ids) == [i \in DOMAIN ids |-> mem[FindId(mem, ids[i])]]

ProbeRandomMember(c) ==
    LET st == c.st
        incomplete == ~ProbeValid(st.probe)
        p1 == IF incomplete THEN ProbeClear(st.probe) ELSE st.probe
        tf == ProbeTakeFailed(p1)
        c1 == [c EXCEPT !.st.probe = tf.p]
        \* the failed member becomes Suspect at the incarnation seen when the probe started
        c2 == IF tf.failed = <<>> THEN c1
              ELSE LET f == tf.failed[1]
                       asSuspect == Mem(f.id, f.inc, "S")
                       s == ApplyExistingIf(c1.st.mem, c1.st.nactive, asSuspect, Always)
                   IN IF ~s.found THEN c1
                      ELSE LET c11 == HandleApplySummary(
                                        [c1 EXCEPT !.st.mem = s.mem, !.st.nactive = s.nactive],
                                        s, asSuspect, TRUE)
                           IN IF s.activeNow
                              THEN Emit(c11, EffTimer(TmSuspect(f.id, f.inc, st.tok), st.cfg.s2d))
                              ELSE c11
        \* Members::next
        order == IF c.auto THEN Ranked(Range(IdsOf(c2.st.mem)), c.pref) ELSE c.order
        permOk == IsPermutation(order, IdsOf(c2.st.mem))
        shuffled == IF permOk THEN Reorder(c2.st.mem, order) ELSE c2.st.mem
        nx == NextMember(c2.st.mem, c2.st.cursor, shuffled)
        needShuffle == c2.st.cursor < 0 \/ c2.st.cursor >= Len(c2.st.mem)
        c3 == [c2 EXCEPT !.st.mem = nx.mem, !.st.cursor = nx.cursor,
                         !.ok = @ /\ (needShuffle => permOk)]
        c4 == IF nx.pos = 0 THEN c3
              ELSE LET m == nx.mem[nx.pos]
                       p2 == ProbeStart(c3.st.probe, m)
                       c31 == SendMessage([c3 EXCEPT !.st.probe = p2], m.id, Msg("Ping", p2.n, NoId))
                   IN IF c31.panic THEN c31
                      ELSE IF ~Live(c31)
                      THEN \* (fix ea3a2f4) the Ping could not be encoded: the round is abandoned, the next one
                           \* is scheduled, then the error is returned
                           IF Fixed("ea3a2f4")
                           THEN Emit([c31 EXCEPT !.st.probe = ProbeClear(@)], EffTimer(TmProbe(st.tok), st.cfg.period))
                           ELSE c31
                      ELSE Emit(c31, EffTimer(TmIndirect(m.id, st.tok), st.cfg.rtt))
    IN IF ~Live(c4) THEN c4
       ELSE LET c5 == Emit(c4, EffTimer(TmProbe(st.tok), st.cfg.period)) IN
            IF incomplete THEN Fail(c5, "Err:IncompleteProbeCycle") ELSE c5

-----------------------------------------------------------------------------
(* handle_timer (lib.rs:620)                                               *)

RECURSIVE IndirectEach(_, _, _)
IndirectEach(c, dsts, probed) ==
    IF dsts = <<>> \/ ~Live(c) THEN c
    ELSE LET c1 == [c EXCEPT !.st.probe = ProbeExpectIndirect(@, Head(dsts))]
             c2 == SendMessage(c1, Head(dsts), Msg("PingReq", c1.st.probe.n, probed))
         IN IndirectEach(c2, Tail(dsts), probed)

SendIndirectProbe(c, probed) ==
    LET st == c.st
        c1 == [c EXCEPT !.st.probe.reached = TRUE]
    IN IF ~ProbeIsProbing(st.probe, probed) THEN c1
       ELSE IF ProbeSucceeded(st.probe) THEN c1
       ELSE IF ~IdIsActive(st.mem, probed) THEN c1
       ELSE LET elig == {i \in ActiveIds(st.mem) : i # probed}
                n == Min(st.cfg.fanout, Cardinality(elig))
                avail == IF c.auto THEN n ELSE Len(c.sends) - c.ti + 1
                m == Min(n, Max(avail, 0))
                dsts == IF c.auto THEN SubSeq(Ranked(elig, c.pref), 1, n)
                        ELSE [i \in 1..m |-> c.sends[c.ti + i - 1].dst]
                valid == IsDistinct(dsts) /\ Range(dsts) \subseteq elig
                c2 == IndirectEach([c1 EXCEPT !.ok = @ /\ valid], dsts, probed)
            IN IF n > 0 /\ WouldPanic(c1) THEN [c1 EXCEPT !.panic = TRUE]
               ELSE IF m = n \/ ~Live(c2) THEN c2
               ELSE \* the next helper was registered, then its PingReq failed to encode
                    LET e == IF c.pind = <<>> THEN NoId ELSE c.pind[Len(c.pind)] IN
                    IF e \in elig \ Range(dsts)
                       /\ ~HeaderFits(c2.st, e, Msg("PingReq", c2.st.probe.n, probed))
                    THEN Fail([c2 EXCEPT !.st.probe = ProbeExpectIndirect(@, e)], "Err:Encode")
                    ELSE [c2 EXCEPT !.ok = FALSE]

ChangeSuspectToDown(c, t) ==
    LET st == c.st
        asDown == Mem(t.id, t.inc, "D")
        \* (fix 6ca130a) the very identity that was suspected, at the very incarnation it was suspected at
        s == ApplyExistingIf(st.mem, st.nactive, asDown,
                             LAMBDA m : m.inc = t.inc /\ (m.id = t.id \/ ~Fixed("6ca130a")))
    IN IF ~s.found THEN c
       ELSE LET c1 == HandleApplySummary([c EXCEPT !.st.mem = s.mem, !.st.nactive = s.nactive],
                                         s, asDown, TRUE)
                c2 == AdjustConnectionState(c1)
            IN \* (fix 654ac52) the courtesy TurnUndead goes out only when the member was
               \* actually declared down by this timeout
               IF (s.ok \/ ~Fixed("654ac52")) /\ st.cfg.notifydown
               THEN SendMessage(c2, t.id, Msg("TurnUndead", 0, NoId))
               ELSE c2

(***************************************************************************)
(* announce_to_down (lib.rs:494): k Down records are drawn from ALL Down   *)
(* records, then those bearing our own address are skipped (fix 3f5c312),  *)
(* so the number of Announces is n minus the number of own-address records *)
(* that happened to be drawn.                                              *)
(***************************************************************************)
AnnounceToDown(c, k) ==
    IF ~Live(c) THEN c ELSE
    LET down == {m.id : m \in DownRecs(c.st.mem)}
        own == IF Fixed("3f5c312") THEN {i \in down : Addr(i) = Addr(c.st.id)} ELSE {}
        others == down \ own
        n == Min(k, Cardinality(down))
        avail == IF c.auto THEN n ELSE Max(Len(c.sends) - c.ti + 1, 0)
        chosenAuto == SelectSeq(SubSeq(Ranked(down, c.pref), 1, n), LAMBDA i : i \in others)
        m == IF c.auto THEN Len(chosenAuto) ELSE Min(avail, Min(n, Cardinality(others)))
        dsts == IF c.auto THEN chosenAuto ELSE [i \in 1..m |-> c.sends[c.ti + i - 1].dst]
        valid == IsDistinct(dsts) /\ Range(dsts) \subseteq others
        msg == Msg("Announce", 0, NoId)
    IN IF m > 0 /\ WouldPanic(c) THEN [c EXCEPT !.panic = TRUE]
       ELSE LET c1 == SendEach([c EXCEPT !.ok = @ /\ valid], dsts, msg) IN
            IF ~Live(c1) THEN c1
            ELSE IF c.auto THEN c1
            \* fewer Announces than members drawn: either the rest of the draw were own-address records
            \* (skipped) or the next one could not be encoded; which of the two legal outcomes happened
            \* is read off the observed result (tape.eres)
            ELSE IF m < n /\ c.eres = "Err:Encode" /\ \E e \in others \ Range(dsts) : ~HeaderFits(c1.st, e, msg)
            THEN Fail(c1, "Err:Encode")
            ELSE IF m >= n - Cardinality(own) THEN c1
            ELSE IF \E e \in others \ Range(dsts) : ~HeaderFits(c1.st, e, msg) THEN Fail(c1, "Err:Encode")
            ELSE [c1 EXCEPT !.ok = FALSE]

HandleTimer(st, t, tape, hl, dbg) ==
    LET c == Ctx(st, tape, hl, dbg)
        tokOk == t.tok = st.tok
    IN Finish(
        CASE t.k = "Indirect" -> IF ~tokOk THEN c ELSE SendIndirectProbe(c, t.id)
          [] t.k = "Suspect" -> IF ~tokOk THEN c ELSE ChangeSuspectToDown(c, t)
          [] t.k = "RemoveDown" -> [c EXCEPT !.st.mem = RemoveIfDown(@, t.id)]
          [] t.k = "Probe" -> IF ~tokOk THEN c
                              ELSE IF st.conn # "C" THEN Fail(c, "Err:NotConnected")
                              ELSE ProbeRandomMember(c)
          [] t.k = "Announce" ->
                IF tokOk /\ st.conn = "C" /\ st.cfg.pa # <<>>
                THEN ChooseAndSend(Emit(c, EffTimer(TmAnnounce(st.tok), st.cfg.pa[1].f)),
                                   st.cfg.pa[1].n, Msg("Announce", 0, NoId), ActiveIds(st.mem))
                ELSE c
          [] t.k = "Gossip" ->
                IF tokOk /\ st.conn = "C" /\ st.cfg.pg # <<>>
                THEN LET c1 == Emit(c, EffTimer(TmGossip(st.tok), st.cfg.pg[1].f)) IN
                     IF st.upd # <<>> \/ st.cus # <<>>
                     THEN ChooseAndSend(c1, st.cfg.pg[1].n, Msg("Gossip", 0, NoId), ActiveIds(st.mem))
                     ELSE c1
                ELSE c
          [] t.k = "AnnounceDown" ->
                IF tokOk /\ st.conn = "C" /\ st.cfg.pad # <<>>
                THEN AnnounceToDown(Emit(c, EffTimer(TmAnnounceDown(st.tok), st.cfg.pad[1].f)),
                                    st.cfg.pad[1].n)
                ELSE c,
        "Ok")

-----------------------------------------------------------------------------
(* handle_data (lib.rs:871)                                                *)

AcceptPayload(st, h) ==
    h.dst = st.id \/ (h.msg.k = "Announce" /\ Addr(st.id) = Addr(h.dst))

\* the reply table, entered only when Connected
React(c, h) ==
    LET src == h.src
        m == h.msg
        self == c.st.id
    IN CASE m.k = "Ping" -> SendMessage(c, src, Msg("Ack", m.n, NoId))
         [] m.k = "Ack" -> [c EXCEPT !.st.probe = ProbeReceiveAck(@, src, m.n)]
         [] m.k = "PingReq" ->
               IF m.id = self THEN Fail(c, "Err:IndirectForOurselves")
               ELSE SendMessage(c, m.id, Msg("IndirectPing", m.n, src))
         [] m.k = "IndirectPing" ->
               IF m.id = self THEN Fail(c, "Err:IndirectForOurselves")
               ELSE SendMessage(c, src, Msg("IndirectAck", m.n, m.id))
         [] m.k = "IndirectAck" ->
               IF m.id = self THEN Fail(c, "Err:IndirectForOurselves")
               ELSE SendMessage(c, m.id, Msg("ForwardedAck", m.n, src))
         [] m.k = "ForwardedAck" ->
               IF m.id = self THEN Fail(c, "Err:IndirectForOurselves")
               ELSE [c EXCEPT !.st.probe = ProbeReceiveIndirectAck(@, src, m.n)]
         [] m.k = "Announce" -> SendMessage(c, src, Msg("Feed", 0, NoId))
         [] m.k = "TurnUndead" -> HandleSelfUpdate(c, 0, "D")
         [] OTHER -> c

\* "rejected before processing": the classes of C17 (also used by HandleData)
DataRejection(st, d) ==
    IF d.len > st.cfg.maxpkt THEN "Err:DataTooBig"
    ELSE IF ~d.hok THEN "Err:Decode"
    ELSE IF d.h.src = st.id \/ Addr(d.h.src) = Addr(st.id) THEN "Err:DataFromOurselves"
    ELSE IF d.rem = 1 \/ (d.h.msg.k = "Announce" /\ d.rem > 0) THEN "Err:MalformedPacket"
    ELSE IF ~AcceptPayload(st, d.h) THEN "Ok"
    ELSE IF d.memfail THEN "Err:Decode"
    ELSE ""

HandleData(st, d, tape, hl, dbg) ==
    LET c == Ctx(st, tape, hl, dbg)
        rej == DataRejection(st, d)
    IN IF rej = "Ok" THEN Finish(c, "Ok")
       ELSE IF rej # "" THEN Finish(Fail(c, rej), "Ok")
       ELSE
        LET h == d.h
            c1 == ApplyUpdate(c, Mem(h.src, h.inc, "A"), TRUE)
        IN IF ~c1.r
           THEN \* inactive sender: payload discarded
                LET wasUndead == c1.st.conn = "U"
                    c2 == IF h.msg.k = "TurnUndead" THEN HandleSelfUpdate(c1, 0, "D") ELSE c1
                    \* (fix 7418747) a TurnUndead that finds the instance already Undead is not
                    \* answered with another TurnUndead: that reply loop never ended
                    stale == h.msg.k = "TurnUndead" /\ wasUndead /\ Fixed("7418747")
                    c3 == IF Live(c2) /\ c2.st.cfg.notifydown /\ ~stale
                          THEN SendMessage(c2, h.src, Msg("TurnUndead", 0, NoId))
                          ELSE c2
                IN Finish(c3, "Ok")
           ELSE
             LET c2 == ApplyMany(c1, d.mem, TRUE) IN
             IF ~Live(c2) THEN Finish(c2, "Ok")
             ELSE LET c3 == HandleCustomBroadcasts(c2, d, <<h.src>>)
                      cres == c3.err
                      c4 == [c3 EXCEPT !.err = ""]
                  IN IF c4.st.conn # "C" THEN Finish([c4 EXCEPT !.err = cres], "Ok")
                     ELSE LET c5 == React(c4, h) IN
                          IF ~Live(c5) THEN Finish(c5, "Ok")
                          ELSE Finish([c5 EXCEPT !.err = cres], "Ok")

-----------------------------------------------------------------------------
(* the remaining public calls                                              *)

DoApplyMany(st, a, tape, hl, dbg) == Finish(ApplyMany(Ctx(st, tape, hl, dbg), a.updates, a.bcast), "Ok")

DoAnnounce(st, a, tape, hl, dbg) ==
    Finish(SendMessage(Ctx(st, tape, hl, dbg), a.dst, Msg("Announce", 0, NoId)), "Ok")

DoGossip(st, tape, hl, dbg) == Finish(Gossip(Ctx(st, tape, hl, dbg)), "Ok")

\* broadcast (lib.rs:539): stop as soon as the backlog is drained
RECURSIVE BroadcastEach(_, _, _, _)
BroadcastEach(c, n, used, elig) ==
    IF n = 0 \/ ~Live(c) THEN c
    ELSE IF ~c.auto /\ c.ti > Len(c.sends)
         THEN \* nothing more was sent although a member had been chosen
              IF \E e \in elig \ used : ~HeaderFits(c.st, e, Msg("Broadcast", 0, NoId))
              THEN Fail(c, "Err:Encode") ELSE [c EXCEPT !.ok = FALSE]
    ELSE LET dst == IF c.auto THEN Ranked(elig \ used, c.pref)[1] ELSE c.sends[c.ti].dst
             c1 == SendMessage([c EXCEPT !.ok = @ /\ dst \in elig /\ dst \notin used],
                               dst, Msg("Broadcast", 0, NoId))
         IN IF ~Live(c1) \/ c1.st.cus = <<>> THEN c1
            ELSE BroadcastEach(c1, n - 1, used \cup {dst}, elig)

DoBroadcast(st, tape, hl, dbg) ==
    LET c == Ctx(st, tape, hl, dbg) IN
    IF st.cus = <<>> THEN Finish(c, "Ok")
    ELSE LET elig == {i \in ActiveIds(st.mem) : PredHolds(st.hpred, i)}
             n == Min(st.cfg.fanout, Cardinality(elig))
         IN IF n > 0 /\ WouldPanic(c) THEN Finish([c EXCEPT !.panic = TRUE], "Ok")
            ELSE Finish(BroadcastEach(c, n, {}, elig), "Ok")

DoLeave(st, tape, hl, dbg) ==
    LET c == Ctx(st, tape, hl, dbg)
        c1 == [c EXCEPT !.st.upd = AddUpdate(@, st.codec, DownOf(st.id), st.cfg.maxtx)]
        c2 == Gossip(c1)
    IN IF ~Representable(st.codec, st.id) THEN Finish(Fail(c, "Err:Encode"), "Ok")
       ELSE Finish(IF Live(c2) THEN BecomeUndead(c2) ELSE c2, "Ok")

DoChangeIdentity(st, a, tape, hl, dbg) == Finish(ChangeIdentity(Ctx(st, tape, hl, dbg), a.id), "Ok")

DoReuse(st, tape, hl, dbg) ==
    LET c == Ctx(st, tape, hl, dbg) IN
    IF st.conn # "U" THEN Finish(Fail(c, "Err:NotUndead"), "Ok")
    ELSE Finish([c EXCEPT !.st = ResetSt(st)], "Ok")

DoAddBroadcast(st, a, tape, hl, dbg) ==
    LET c == Ctx(st, tape, hl, dbg) IN
    IF a.len = 0 THEN Finish(Fail(c, "Err:MalformedPacket"), "Ok")
    ELSE IF a.len > st.cfg.maxpkt THEN Finish(Fail(c, "Err:DataTooBig"), "Ok")
    ELSE LET c1 == HandlerCall(c, a.item, <<>>) IN
         IF c1.hv = 2 THEN Finish(Fail(c1, "Err:CustomBroadcast"), "Ok")
         ELSE IF c1.hv = 1 THEN Finish(AcceptItem(c1, a.item), "OkTrue")
         ELSE Finish(c1, "OkFalse")

ConfigRefused(old, new) ==
    \/ old.period # new.period
    \/ old.rtt # new.rtt
    \/ (old.pa = <<>> /\ new.pa # <<>>)
    \/ (old.pad = <<>> /\ new.pad # <<>>)
    \/ (old.pg = <<>> /\ new.pg # <<>>)

DoSetConfig(st, a, tape, hl, dbg) ==
    LET c == Ctx(st, tape, hl, dbg) IN
    IF ConfigRefused(st.cfg, a.cfg) THEN Finish(Fail(c, "Err:InvalidConfig"), "Ok")
    ELSE \* (fix 66b62cc) the send buffer is re-created when max_packet_size changes
         Finish([c EXCEPT !.st.cfg = a.cfg,
                          !.st.bufcap = IF a.cfg.maxpkt # st.cfg.maxpkt /\ Fixed("66b62cc") THEN a.cfg.maxpkt ELSE @], "Ok")

\* dispatcher
Step(st, call, args, tape, hl, dbg) ==
    CASE call = "data" -> HandleData(st, args, tape, hl, dbg)
      [] call = "timer" -> HandleTimer(st, args, tape, hl, dbg)
      [] call = "apply_many" -> DoApplyMany(st, args, tape, hl, dbg)
      [] call = "announce" -> DoAnnounce(st, args, tape, hl, dbg)
      [] call = "gossip" -> DoGossip(st, tape, hl, dbg)
      [] call = "broadcast" -> DoBroadcast(st, tape, hl, dbg)
      [] call = "leave" -> DoLeave(st, tape, hl, dbg)
      [] call = "change_identity" -> DoChangeIdentity(st, args, tape, hl, dbg)
      [] call = "reuse" -> DoReuse(st, tape, hl, dbg)
      [] call = "add_broadcast" -> DoAddBroadcast(st, args, tape, hl, dbg)
      [] call = "set_config" -> DoSetConfig(st, args, tape, hl, dbg)
=============================================================================
