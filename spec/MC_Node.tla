------------------------------ MODULE MC_Node ------------------------------
(***************************************************************************)
(* NodeEnv: one Foca instance (FocaNode) in an adversarial environment,    *)
(* with the property monitors as invariants.                               *)
(*                                                                         *)
(* The environment may, at every step: deliver any pending timer (each     *)
(* exactly once, any order), hand over any datagram of a small universe    *)
(* (all kinds, sources of every generation incl. the instance's own        *)
(* address, wrong destinations, rejected classes), or call any public      *)
(* method.  With Forge it may also fire timers that were never issued.     *)
(* Small moduli (IncMax, TokenMod, ProbeMod) make saturation and wrap-     *)
(* around reachable within a few steps.                                    *)
(*                                                                         *)
(* Sim = TRUE draws each choice with RandomElement (one successor per      *)
(* state: for `tlc -simulate`); Sim = FALSE enumerates every choice.       *)
(***************************************************************************)
EXTENDS IOUtils, Json, MonC07, MonC08, MonC09, MonC10, MonC11, MonC12, MonC13, MonC15, MonC16, MonC19, Randomization

CONSTANTS Sim,        \* BOOLEAN
          Forge,      \* BOOLEAN: forged / duplicated timers allowed
          MaxSteps,   \* depth bound
          PeerAddrs,  \* e.g. {2, 3}
          Gens,       \* e.g. {0, 1}
          Pols,       \* renew policies of the instance
          MonSetDefault, \* monitors to run unless MC_MONSET=Cxx selects a single one
          Scope       \* "tiny" | "full": size of the datagram alphabet

WantScripts == "MC_SCRIPTS" \in DOMAIN IOEnv
MonSet == IF "MC_MONSET" \in DOMAIN IOEnv THEN {IOEnv.MC_MONSET} ELSE MonSetDefault

VARIABLES st, pend, mon, steps, lastObs, epochs, script
vars == <<st, pend, mon, steps, lastObs, epochs, script>>

OwnAddr == 1
SpareAddr == 9
PeerIds == {<<a, g>> : a \in PeerAddrs, g \in Gens}
OwnIds == {<<OwnAddr, g>> : g \in Gens \cup {2}}
AllIds == PeerIds \cup OwnIds
Incs == {0, 1, IncMax}
PrefUniverse == {Ranked(AllIds, <<>>), Ranked(AllIds, <<<<3, 0>>, <<3, 1>>, <<2, 1>>, <<2, 0>>>>)}

Pick(S) == IF Sim THEN {RandomElement(S)} ELSE S

Cfg(maxtx, maxpkt, nd, pa, pad, pg) ==
    [period |-> 3, rtt |-> 1, fanout |-> 2, maxtx |-> maxtx, s2d |-> 5, rda |-> 9, maxpkt |-> maxpkt,
     notifydown |-> nd,
     pa |-> IF pa THEN <<[f |-> 4, n |-> 1]>> ELSE <<>>,
     pad |-> IF pad THEN <<[f |-> 6, n |-> 2]>> ELSE <<>>,
     pg |-> IF pg THEN <<[f |-> 2, n |-> 2]>> ELSE <<>>]

Cfgs == IF Scope = "tiny"
        THEN {Cfg(1, 1400, TRUE, FALSE, TRUE, FALSE), Cfg(2, 30, FALSE, TRUE, FALSE, TRUE)}
        ELSE IF Scope = "probe"
        THEN {Cfg(1, 1400, TRUE, FALSE, FALSE, FALSE)} \cup (IF "MC_ONECFG" \in DOMAIN IOEnv THEN {} ELSE {Cfg(2, 1400, FALSE, FALSE, FALSE, FALSE)})
        ELSE {Cfg(tx, p, nd, pa, pad, pg) : tx \in {1, 2}, p \in {24, 30, 1400}, nd \in BOOLEAN,
                                            pa \in BOOLEAN, pad \in BOOLEAN, pg \in BOOLEAN}

MonInit == [C07 |-> C07Init, C08 |-> C08Init, C09 |-> C09Init, C10 |-> C10Init, C11 |-> C11Init, C12 |-> C12Init,
            C13 |-> C13Init, C15 |-> C15Init, C16 |-> C16Init, C19 |-> C19Init]

Init ==
    /\ \E g \in Pick(IF Scope \in {"tiny", "probe"} THEN {0} ELSE {0, 1}), pol \in Pick(Pols), cfg \in Pick(Cfgs),
          pred \in Pick(IF Scope \in {"tiny", "probe"} THEN {"all"} ELSE {"all", "even"}) :
          st = NodeInit(<<OwnAddr, g>>, pol, "fixed", "samekey", pred, cfg)
    /\ pend = <<>>
    /\ mon = MonInit
    /\ steps = 0
    /\ lastObs = <<>>
    /\ epochs = 0
    /\ script = <<>>

-----------------------------------------------------------------------------
\* the input alphabet

Members == {Mem(i, n, s) : i \in AllIds, n \in Incs, s \in States}
Items == {[key |-> 1, ver |-> 0, sz |-> 2, intact |-> TRUE], [key |-> 1, ver |-> 1, sz |-> 3, intact |-> TRUE],
          [key |-> 2, ver |-> 0, sz |-> 9, intact |-> TRUE]}

MsgsFor(n) ==
    {Msg(k, m, NoId) : k \in {"Ping", "Ack"}, m \in {n, (n + 1) % ProbeMod}}
    \cup {Msg(k, m, i) : k \in {"PingReq", "IndirectPing", "IndirectAck", "ForwardedAck"},
                         m \in {n, (n + 1) % ProbeMod}, i \in (IF Scope = "tiny" THEN {<<2, 0>>, st.id} ELSE AllIds)}
    \cup {Msg(k, 0, NoId) : k \in {"Announce", "Feed", "Gossip", "Broadcast", "TurnUndead"}}

\* the record the harness' parser would produce for a well-formed datagram
Parsed(h, mem, items) ==
    LET hs == HSize("fixed", h)
        hasTally == h.msg.k # "Broadcast" /\ (mem # <<>> \/ (items # <<>> /\ h.msg.k # "Broadcast"))
        len == hs + (IF hasTally THEN 2 ELSE 0) + 6 * Len(mem)
               + SumSeq([i \in DOMAIN items |-> items[i].sz + 2])
    IN [len |-> len, hok |-> TRUE, h |-> h, hs |-> hs, rem |-> len - hs,
        tally |-> IF hasTally THEN Len(mem) ELSE -1, mem |-> mem,
        msz |-> [i \in DOMAIN mem |-> 6], memfail |-> FALSE, items |-> items, tailok |-> TRUE, trail |-> 0]

\* the rejected classes of C17
Mangled(d) == {[d EXCEPT !.hok = FALSE], [d EXCEPT !.len = 5000], [d EXCEPT !.rem = 1, !.len = d.hs + 1],
               [d EXCEPT !.memfail = TRUE, !.tally = 3, !.rem = 8, !.len = d.hs + 8],
               [d EXCEPT !.tailok = FALSE, !.trail = 2, !.len = @ + 2, !.rem = @ + 2]}

\* datagram classes, chosen component by component (lazily)
DataCall(class, P(_)) ==
    LET srcs == PeerIds \cup (IF Scope = "tiny" THEN {<<OwnAddr, 0>>} ELSE OwnIds)
        dsts == {st.id, <<Addr(st.id), (Gen(st.id) + 1) % 3>>, <<2, 0>>}
    IN CASE class = "proto" ->
              \E s \in Pick(srcs), n \in Pick(IF Scope = "tiny" THEN {0} ELSE {0, 1}), d \in Pick(dsts),
                 m \in Pick(MsgsFor(st.probe.n)) : P(Parsed(Hdr(s, n, d, m), <<>>, <<>>))
         [] class = "withUpd" ->
              \E s \in Pick(PeerIds), n \in Pick({0, 1}), k \in Pick({"Gossip", "Ack", "TurnUndead"}),
                 i \in Pick(AllIds), ui \in Pick(Incs), us \in Pick(States) :
                 P(Parsed(Hdr(s, n, st.id, Msg(k, st.probe.n, NoId)), <<Mem(i, ui, us)>>, <<>>))
         [] class = "withTwo" ->
              \E s \in Pick({<<2, 0>>, <<3, 1>>}), i \in Pick(AllIds), ui \in Pick(Incs), us \in Pick(States),
                 j \in Pick(AllIds), wi \in Pick(Incs), ws \in Pick(States) :
                 P(Parsed(Hdr(s, 0, st.id, Msg("Gossip", 0, NoId)), <<Mem(i, ui, us), Mem(j, wi, ws)>>, <<>>))
         [] class = "withItem" ->
              \E s \in Pick(PeerIds), k \in Pick({"Gossip", "Broadcast", "Ping"}), it \in Pick(Items) :
                 P(Parsed(Hdr(s, 0, st.id, Msg(k, 0, NoId)), <<>>, <<it>>))
         [] class = "bad" ->
              \E d \in Pick(Mangled(Parsed(Hdr(<<2, 0>>, 0, st.id, Msg("Gossip", 0, NoId)),
                                           <<Mem(<<3, 0>>, 0, "A")>>, <<>>))) : P(d)

TimersForged ==
    {Tm(k, t, NoId, 0) : k \in {"Probe", "Announce", "AnnounceDown", "Gossip"}, t \in {st.tok, (st.tok + 3) % TokenMod}}
    \cup {TmIndirect(i, t) : i \in PeerIds, t \in {st.tok, (st.tok + 3) % TokenMod}}
    \cup {TmSuspect(i, n, t) : i \in PeerIds, n \in {0, 1}, t \in {st.tok, (st.tok + 3) % TokenMod}}
    \cup {TmRemoveDown(i) : i \in AllIds}

ConfigChanges ==
    {[st.cfg EXCEPT !.pa = <<>>], [st.cfg EXCEPT !.pg = <<>>], [st.cfg EXCEPT !.pad = <<>>],
     [st.cfg EXCEPT !.maxtx = 3 - @], [st.cfg EXCEPT !.notifydown = ~@],
     [st.cfg EXCEPT !.pa = <<[f |-> 4, n |-> 1]>>], [st.cfg EXCEPT !.rtt = 2],
     [st.cfg EXCEPT !.maxpkt = IF @ = 1400 THEN 30 ELSE 1400]}

\* The property presupposes fewer than TokenMod epoch changes between the issue and the delivery
\* of a timer (the width of the token): older timers are never delivered by this environment.
Deliverable == {i \in DOMAIN pend : pend[i].t.tok < 0 \/ epochs - pend[i].ep < TokenMod}

\* a call is <<name, args, index-of-the-pending-timer-or-0>>
ApiCall(P(_)) ==
    \E kind \in Pick({"apply_many", "announce", "gossip", "broadcast", "leave", "reuse", "change_identity",
                       "add_broadcast", "set_config"}) :
      CASE kind = "apply_many" ->
             \E i \in Pick(AllIds), ui \in Pick(Incs), us \in Pick(States), b \in Pick(BOOLEAN) :
                P(<<"apply_many", [updates |-> <<Mem(i, ui, us)>>, bcast |-> b], 0>>)
        [] kind = "announce" -> \E i \in Pick(PeerIds) : P(<<"announce", [dst |-> i], 0>>)
        [] kind = "change_identity" ->
             \* a new generation of the current address or a move to the other one of {OwnAddr, SpareAddr}
             \* (adopting the address of a live member is a user error: excluded)
             \E g \in Pick({0, 1, 2}), a \in Pick(IF Scope = "tiny" THEN {Addr(st.id)} ELSE {Addr(st.id), OwnAddr, SpareAddr}) :
                /\ a = Addr(st.id) \/ ~\E i \in DOMAIN st.mem : Addr(st.mem[i].id) = a /\ st.mem[i].st # "D"
                /\ P(<<"change_identity", [id |-> <<a, g>>], 0>>)
        [] kind = "add_broadcast" ->
             \E it \in Pick(Items \cup {[key |-> 0, ver |-> 0, sz |-> 0, intact |-> FALSE]}) :
                P(<<"add_broadcast", [len |-> it.sz, item |-> it], 0>>)
        [] kind = "set_config" -> \E c \in Pick(ConfigChanges) : P(<<"set_config", [cfg |-> c], 0>>)
        [] OTHER -> P(<<kind, <<>>, 0>>)

\* classes are drawn first so that a random walk is not dominated by the largest class
Classes == {"proto", "withUpd", "withItem", "bad", "api"}
                \cup (IF Deliverable # {} THEN {"timer"} ELSE {})
                \cup (IF Forge THEN {"forged"} ELSE {})
                \cup (IF Scope = "tiny" THEN {} ELSE {"withTwo"})

RECURSIVE DropAt(_, _)
DropAt(s, i) == [j \in 1..(Len(s) - 1) |-> IF j < i THEN s[j] ELSE s[j + 1]]

EnvRec == [forge |-> Forge, junk |-> FALSE, ordered |-> FALSE, dbg |-> TRUE, run |-> 0, driver |-> "MC"]

MonStep(m, o) ==
    [p \in DOMAIN m |->
        IF p \notin MonSet THEN m[p]
        ELSE CASE p = "C07" -> C07Step(m[p], o) [] p = "C08" -> C08Step(m[p], o)
               [] p = "C09" -> C09Step(m[p], o) [] p = "C10" -> C10Step(m[p], o)
               [] p = "C11" -> C11Step(m[p], o) [] p = "C12" -> C12Step(m[p], o) [] p = "C13" -> C13Step(m[p], o) [] p = "C15" -> C15Step(m[p], o) [] p = "C16" -> C16Step(m[p], o)
               [] p = "C19" -> C19Step(m[p], o)]

Do(call) ==
    \E pref \in Pick(IF Scope = "probe" /\ WantScripts THEN {Ranked(AllIds, <<>>)} ELSE PrefUniverse), hv \in Pick(IF Scope = "probe" THEN {0} ELSE {0, 1, 2}) :
      LET tape == [EmptyTape EXCEPT !.auto = TRUE, !.pref = pref, !.hv = hv]
          r == Step(st, call[1], call[2], tape, <<>>, TRUE)
          out == ObsOut(st.codec, r.out)
          hl == [i \in DOMAIN r.hcalls |-> [item |-> r.hcalls[i].item, from |-> r.hcalls[i].from, v |-> hv]]
          o == [node |-> 0, call |-> call[1], args |-> call[2], res |-> r.res, out |-> out, hlog |-> hl,
                now |-> steps, pre |-> PubOf(st), post |-> PubOf(r.st), hpre |-> HookOf(st),
                hpost |-> HookOf(r.st), env |-> EnvRec,
                static |-> [pol |-> st.pol, codec |-> st.codec, hrel |-> st.hrel, hpred |-> st.hpred]]
          bumps == (r.st.tok - st.tok + TokenMod) % TokenMod
          \* a timer belongs to the epoch whose token it carries (a call may end several epochs)
          newTimers == LET T == OTimers(r.out) IN
                       [i \in DOMAIN T |->
                          [t |-> T[i].t,
                           ep |-> IF T[i].t.tok < 0 THEN epochs + bumps
                                  ELSE epochs + ((T[i].t.tok - st.tok + TokenMod) % TokenMod)]]
      IN /\ st' = (IF r.res = "Panic" THEN st ELSE r.st)
         /\ pend' = (IF call[3] > 0 THEN DropAt(pend, call[3]) ELSE pend) \o newTimers
         /\ mon' = (IF r.res = "Panic" THEN mon ELSE MonStep(mon, o))
         /\ steps' = steps + 1
         /\ lastObs' = [call |-> call[1], res |-> r.res]
         /\ epochs' = epochs + bumps
         \* the environment inputs of this behaviour, with the context needed to re-express state-dependent
         \* values (own identity, probe number, timer token) on a real instance: see harness/src/replay.rs
         /\ script' = IF WantScripts
                       THEN Append(script, [call |-> call[1], args |-> call[2], pending |-> call[3] > 0,
                                            ctx |-> [id |-> st.id, n |-> st.probe.n, tok |-> st.tok,
                                                     pol |-> st.pol, pred |-> st.hpred, cfg |-> st.cfg]])
                       ELSE script

(***************************************************************************)
(* Scope "probe": EVERY interleaving of one probe round and what follows   *)
(* it.  The instance learns two members, its probe timer fires, and from   *)
(* then on the environment may, at every step, deliver any pending timer   *)
(* (indirect-probe, next probe, suspicion timeout, forget) or hand over    *)
(* any datagram that bears on the round: acks and forwarded acks with the  *)
(* current / a stale probe number from either peer and for either origin,  *)
(* a ping, gossip that suspects / refutes / buries the probed member or    *)
(* suspects the instance itself.  Exhaustive (Sim = FALSE); with           *)
(* MC_SCRIPTS=1 every behaviour is printed and replayed on the real code.  *)
(***************************************************************************)
ProbeMsgs(n) == {Msg("Ack", n, NoId), Msg("Ack", (n + ProbeMod - 1) % ProbeMod, NoId), Msg("Ping", n, NoId),
                 Msg("ForwardedAck", n, <<2, 0>>), Msg("ForwardedAck", n, <<3, 0>>),
                 Msg("ForwardedAck", (n + ProbeMod - 1) % ProbeMod, <<2, 0>>)}
ProbeUpds == {Mem(<<2, 0>>, 0, "S"), Mem(<<2, 0>>, 1, "A"), Mem(<<2, 0>>, 0, "D"), Mem(st.id, st.inc, "S")}

ProbeNext ==
    CASE steps = 0 -> Do(<<"apply_many", [updates |-> <<Mem(<<2, 0>>, 0, "A"), Mem(<<3, 0>>, 0, "A")>>, bcast |-> FALSE], 0>>)
      [] steps = 1 -> \E i \in Deliverable : pend[i].t.k = "Probe" /\ Do(<<"timer", pend[i].t, i>>)
      [] OTHER -> \/ \E i \in Deliverable : Do(<<"timer", pend[i].t, i>>)
                  \/ \E s \in {<<2, 0>>, <<3, 0>>}, m \in ProbeMsgs(st.probe.n) :
                        Do(<<"data", Parsed(Hdr(s, 0, st.id, m), <<>>, <<>>), 0>>)
                  \/ \E u \in ProbeUpds :
                        Do(<<"data", Parsed(Hdr(<<3, 0>>, 0, st.id, Msg("Gossip", 0, NoId)), <<u>>, <<>>), 0>>)

Next ==
    /\ steps < MaxSteps
    /\ (lastObs # <<>> => lastObs.res # "Panic")
    /\ IF Scope = "probe" THEN ProbeNext ELSE
       \E class \in Pick(Classes) :
         CASE class = "timer" -> \E i \in Pick(Deliverable) : Do(<<"timer", pend[i].t, i>>)
           [] class = "forged" -> \E t \in Pick(TimersForged) : Do(<<"timer", t, 0>>)
           [] class = "api" -> ApiCall(Do)
           [] OTHER -> DataCall(class, LAMBDA d : Do(<<"data", d, 0>>))

Spec == Init /\ [][Next]_vars

-----------------------------------------------------------------------------
\* C06 on the specification: the assertion state (send_buf capacity vs max_packet_size, the only
\* debug assertion whose truth depends on the call history) never trips, whatever the history
\* printed once per simulated behaviour (at its last state); parsed by tools/check.py
ScriptOut == (WantScripts /\ steps = MaxSteps) => PrintT(<<"SCRIPT", ToJson(script)>>)

NoPanic == lastObs # <<>> => lastObs.res # "Panic"

MonitorsQuiet == \A p \in (MonSet \cap DOMAIN mon) : mon[p].v = {}

(***************************************************************************)
(* C17 on the specification: in every reachable state, every input of the  *)
(* rejected classes is a stuttering step - same state, no effect, the      *)
(* class's result.  (Determinism is structural: Step is a function of      *)
(* state, input and tape.)                                                 *)
(***************************************************************************)
RejectedInputs ==
    LET base == Parsed(Hdr(<<2, 0>>, 0, st.id, Msg("Gossip", 0, NoId)), <<Mem(<<3, 0>>, 1, "S")>>, <<>>)
        own1 == Parsed(Hdr(st.id, 0, st.id, Msg("Gossip", 0, NoId)), <<Mem(<<3, 0>>, 1, "S")>>, <<>>)
        own2 == Parsed(Hdr(<<Addr(st.id), (Gen(st.id) + 1) % 3>>, 0, st.id, Msg("Ping", 1, NoId)), <<>>, <<>>)
        wrong == Parsed(Hdr(<<2, 0>>, 0, <<Addr(st.id), (Gen(st.id) + 1) % 3>>, Msg("Gossip", 0, NoId)), <<Mem(<<3, 0>>, 1, "S")>>, <<>>)
        wrong2 == Parsed(Hdr(<<2, 1>>, 1, <<3, 0>>, Msg("Ping", 1, NoId)), <<>>, <<>>)
        ann == [Parsed(Hdr(<<2, 0>>, 0, st.id, Msg("Announce", 0, NoId)), <<>>, <<>>) EXCEPT !.rem = 2, !.len = @ + 2, !.tally = 0]
        stale == (st.tok + TokenMod - 1) % TokenMod
    IN {<<"data", d, "Err">> : d \in {[base EXCEPT !.hok = FALSE], [base EXCEPT !.len = st.cfg.maxpkt + 1],
                                        [base EXCEPT !.rem = 1, !.len = base.hs + 1],
                                        [base EXCEPT !.memfail = TRUE], own1, own2, ann}}
       \cup {<<"data", wrong, "Ok">>, <<"data", wrong2, "Ok">>}
       \cup {<<"timer", t, "Ok">> : t \in {TmProbe(stale), TmIndirect(<<2, 0>>, stale), TmSuspect(<<2, 0>>, 0, stale),
                                            TmAnnounce(stale), TmGossip(stale), TmAnnounceDown(stale)}}
       \cup {<<"change_identity", [id |-> st.id], "Err">>}
       \cup (IF st.conn # "U" THEN {<<"reuse", <<>>, "Err">>} ELSE {})
       \cup {<<"set_config", [cfg |-> [st.cfg EXCEPT !.period = @ + 1, !.maxtx = 7]], "Err">>}
       \cup {<<"add_broadcast", [len |-> 0, item |-> [key |-> 0, ver |-> 0, sz |-> 0, intact |-> FALSE]], "Err">>,
             <<"add_broadcast", [len |-> st.cfg.maxpkt + 1, item |-> [key |-> 1, ver |-> 0, sz |-> st.cfg.maxpkt + 1, intact |-> TRUE]], "Err">>}

RejectedLeavesNoTrace ==
    \A inp \in RejectedInputs :
        LET r == Step(st, inp[1], inp[2], [EmptyTape EXCEPT !.auto = TRUE, !.pref = Ranked(AllIds, <<>>)], <<>>, TRUE) IN
        /\ r.st = st /\ r.out = <<>> /\ r.hcalls = <<>>
        /\ (inp[3] = "Ok" => r.res = "Ok")
        /\ (inp[3] = "Err" => r.res # "Ok" /\ r.res # "Panic")

\* hide history that does not influence behaviour
View == <<st, pend, mon, epochs>>
=============================================================================
