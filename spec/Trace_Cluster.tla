---------------------------- MODULE Trace_Cluster ----------------------------
(***************************************************************************)
(* Validation of cluster simulator traces against the cluster-level        *)
(* monitors (MonCluster): C02 C03 C04 C05 C18, selected with MON_Cxx=1.    *)
(* Works on complete and on "lite" events.  One-step conformance of the    *)
(* complete traces is checked separately by Trace_Node.                    *)
(* Environment: TRACE=<file.ndjson>                                        *)
(***************************************************************************)
EXTENDS MonCluster, Json, IOUtils

Rec == ndJsonDeserialize(IOEnv.TRACE)
On(name) == name \in DOMAIN IOEnv /\ IOEnv[name] = "1"
HasField(r, f) == f \in DOMAIN r

VARIABLES l, g, viol, ncalls, nruns
vars == <<l, g, viol, ncalls, nruns>>
MaxList == 12

Init == /\ l = 1 /\ g = GInit([n |-> 0, period |-> 1, s2d |-> 0, fanout |-> 1, pad |-> 0, run |-> 0])
        /\ viol = [n |-> 0, list |-> <<>>] /\ ncalls = 0 /\ nruns = 0

Add(vs, line, what) ==
         [n |-> viol.n + 1,
          list |-> IF Len(viol.list) >= MaxList THEN viol.list
                   ELSE Append(viol.list, [line |-> line, run |-> g.hdr.run, call |-> what, v |-> vs,
                                           extra |-> [f \in (DOMAIN g.hdr \cap {"n", "pa", "pg", "maxtx", "fanout", "notifydown", "pol", "piggy"}) |-> g.hdr[f]]])]

\* violations of the selected monitors, as a function property-id -> set of clauses
Sel(c02, c03, c04, c05, c18) ==
    LET all == [C02 |-> IF On("MON_C02") THEN c02 ELSE {}, C03 |-> IF On("MON_C03") THEN c03 ELSE {},
                C04 |-> IF On("MON_C04") THEN c04 ELSE {}, C05 |-> IF On("MON_C05") THEN c05 ELSE {},
                C18 |-> IF On("MON_C18") THEN c18 ELSE {}]
        ps == {p \in DOMAIN all : all[p] # {}}
    IN IF ps = {} THEN {} ELSE {[p \in ps |-> all[p]]}

Next ==
    /\ l <= Len(Rec)
    /\ l' = l + 1
    /\ LET e == Rec[l] IN
       CASE e.ev = "reset" ->
              /\ g' = GInit(e) /\ nruns' = nruns + 1 /\ UNCHANGED <<viol, ncalls>>
         [] e.ev = "new" ->
              /\ g' = GNew(g, e) /\ UNCHANGED <<viol, ncalls, nruns>>
         [] e.ev = "call" /\ e.res # "Panic" ->
              LET g1 == GCall(g, e)
                  vs == Sel(C02Call(g, g1, e), C03Call(g, g1, e), C04Call(g, g1, e), C05Call(g, g1, e), C18Call(g, g1, e))
                  g2 == C05Track(C03Track(g1, e), e)
              IN /\ g' = [g2 EXCEPT !.deliveries = IF e.call = "data" THEN @ + 1 ELSE @]
                 /\ viol' = IF vs = {} THEN viol ELSE Add(CHOOSE x \in vs : TRUE, l, e.call)
                 /\ ncalls' = ncalls + 1 /\ UNCHANGED nruns
         [] e.ev = "call" /\ e.res = "Panic" ->
              \* a panic of the code under test: reported for C06 and for whichever cluster monitor is selected
              /\ viol' = Add([p \in {q \in {"C02", "C03", "C04", "C05", "C06", "C18"} : On("MON_" \o q)} |-> {"panic"}], l, e.call)
              /\ UNCHANGED <<g, nruns>> /\ ncalls' = ncalls + 1
         [] e.ev = "join" ->
              /\ g' = [g EXCEPT !.lastJoin = e.now] /\ UNCHANGED <<viol, ncalls, nruns>>
         [] e.ev = "formed" ->
              /\ g' = [g EXCEPT !.formed = TRUE] /\ UNCHANGED <<viol, ncalls, nruns>>
         [] e.ev = "crash" ->
              /\ g' = C03Fault(g, e, FALSE) /\ UNCHANGED <<viol, ncalls, nruns>>
         [] e.ev = "leave" ->
              /\ g' = C03Fault(g, e, TRUE) /\ UNCHANGED <<viol, ncalls, nruns>>
         [] e.ev = "drop" ->
              /\ g' = [g EXCEPT !.tDrop = e.now] /\ UNCHANGED <<viol, ncalls, nruns>>
         [] e.ev = "heal" ->
              /\ g' = [g EXCEPT !.tHeal = e.now, !.toldDown = {}] /\ UNCHANGED <<viol, ncalls, nruns>>
         [] e.ev = "end" /\ HasField(e, "views") ->
              LET vs == Sel(IF g.hdr.driver = "c02" THEN C02End(g, e) ELSE {}, C03End(g, e), C04End(g, e),
                            C05End(g, e), IF g.hdr.driver = "c18" THEN C18End(g, e) ELSE {})
              IN /\ viol' = IF vs = {} THEN viol ELSE Add(CHOOSE x \in vs : TRUE, l, "end")
                 /\ UNCHANGED <<g, ncalls, nruns>>
         [] OTHER -> UNCHANGED <<g, viol, ncalls, nruns>>

Spec == Init /\ [][Next]_vars

AtEnd == l = Len(Rec) + 1
Report == AtEnd => PrintT(<<"RESULT", ToJson([lines |-> Len(Rec),
                                              conf |-> [calls |-> ncalls, ndiv |-> 0, divs |-> <<>>],
                                              runs |-> nruns, viol |-> viol])>>)
Done == PrintT(<<"CONSUMED", TLCGet("stats").diameter - 1, Len(Rec)>>)
=============================================================================
