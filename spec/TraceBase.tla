------------------------------ MODULE TraceBase ------------------------------
(***************************************************************************)
(* Reading an implementation trace (ndjson written by the harness) and     *)
(* checking each recorded public call against FocaNode!Step:               *)
(*                                                                         *)
(*   pre   = the specification state reconstructed from the previous       *)
(*           snapshot of that node                                         *)
(*   tape  = the RNG-dependent choices read off the observation            *)
(*   Step(pre, call, args, tape) must be a legal step (ok) whose result,   *)
(*   effects and post-state equal the observed ones.                       *)
(*                                                                         *)
(* The specification state is then set to the OBSERVED post-state whether  *)
(* or not the step conformed, so that one divergence does not hide the     *)
(* rest of the trace and monitors always see what the code really did.     *)
(***************************************************************************)
EXTENDS FocaNode, Json, IOUtils

Rec == ndJsonDeserialize(IOEnv.TRACE)

HasField(r, f) == f \in DOMAIN r

\* observation -> specification state; static fields come from `prev`
AbsState(e, prev) ==
    [id |-> e.pub.id, pol |-> prev.pol, codec |-> prev.codec, hrel |-> prev.hrel,
     hpred |-> prev.hpred,
     inc |-> e.hook.inc, conn |-> e.hook.conn, tok |-> e.hook.tok,
     mem |-> e.hook.order, cursor |-> e.hook.cursor, nactive |-> e.hook.nactive,
     probe |-> e.hook.probe, upd |-> e.hook.upd, cus |-> e.hook.cus,
     cfg |-> e.hook.cfg, bufcap |-> e.hook.bufcap]

StaticOf(e) == [pol |-> e.pol, codec |-> e.codec, hrel |-> e.hrel, hpred |-> e.hpred]

Sends(out) == SelectSeq(out, LAMBDA x : x.k = "send")

TapeOf(e) ==
    LET S == Sends(e.out) IN
    [sends |-> [i \in DOMAIN S |-> [dst |-> S[i].dst, mem |-> S[i].d.mem, items |-> S[i].d.items]],
     order |-> IF HasField(e.hook, "order") THEN IdsOf(e.hook.order) ELSE <<>>,
     pind |-> IF HasField(e.hook, "probe") THEN e.hook.probe.ind ELSE <<>>,
     auto |-> FALSE, pref |-> <<>>, hv |-> 0, eres |-> e.res]

\* a datagram built by the specification against the parsed observed one
DgMatches(s, o) ==
    /\ o.hok /\ o.tailok /\ ~o.memfail /\ o.trail = 0
    /\ s.h = o.h /\ s.hs = o.hs /\ s.len = o.len
    /\ s.tally = o.tally /\ s.mem = o.mem /\ s.items = o.items

EffMatches(s, o) ==
    /\ s.k = o.k
    /\ CASE s.k = "send" -> s.dst = o.dst /\ DgMatches(s.d, o.d)
         [] s.k = "timer" -> s.t = o.t /\ s.after = o.after
         [] s.k = "notify" -> s.n = o.n

OutMatches(so, oo) == Len(so) = Len(oo) /\ \A i \in DOMAIN so : EffMatches(so[i], oo[i])

\* member order: exact, except that the random insert positions of this call are undone
MemMatches(smem, omem, ins) ==
    IF ins = <<>> THEN smem = omem
    ELSE /\ Len(smem) = Len(omem)
         /\ Range(smem) = Range(omem)
         /\ Len(ins) <= Len(smem)
         /\ UndoInserts(IdsOf(omem), ins) = IdsOf(SubSeq(smem, 1, Len(smem) - Len(ins)))

StateDiff(s, o, ins, dbg) ==
    {f \in {"id", "inc", "conn", "tok", "cursor", "nactive", "probe", "cfg"} : s[f] # o[f]}
    \cup (IF MemMatches(s.mem, o.mem, ins) THEN {} ELSE {"mem"})
    \cup (IF BagEq(s.upd, o.upd) THEN {} ELSE {"upd"})
    \cup (IF BagEq(s.cus, o.cus) THEN {} ELSE {"cus"})
    \cup (IF dbg /\ s.bufcap # o.bufcap THEN {"bufcap"} ELSE {})

\* set of field names in which the observed step departs from the specification
Divergence(pre, e, dbg) ==
    LET r == Step(pre, e.call, e.args, TapeOf(e), e.hlog, dbg) IN
    IF e.res = "Panic" THEN (IF r.res = "Panic" THEN {} ELSE {"res"})
    ELSE (IF r.ok THEN {} ELSE {"choice"})
         \cup (IF r.res = e.res THEN {} ELSE {"res"})
         \cup (IF OutMatches(r.out, e.out) THEN {} ELSE {"out"})
         \cup StateDiff(r.st, AbsState(e, pre), r.ins, dbg)
=============================================================================
