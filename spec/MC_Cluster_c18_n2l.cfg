SPECIFICATION Spec18
CONSTANTS
  IncMax = 3
  TokenMod = 4
  ProbeMod = 4
  NN = 2
  Horizon = 0
  Mode = "c18"
  Pol = "losing"
  NotifyDown = TRUE
  MaxTx = 2
  PGossip = FALSE
  PAnnDown = FALSE
  PAnnounce = FALSE
INVARIANTS MonitorsQuiet
PROPERTY Terminates
CHECK_DEADLOCK FALSE
