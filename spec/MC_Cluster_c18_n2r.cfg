SPECIFICATION Spec18
CONSTANTS
  IncMax = 3
  TokenMod = 4
  Fixes = {"654ac52", "3f5c312", "66b62cc", "7418747", "f6702a7", "73fde95", "ea3a2f4", "6ca130a", "a23716c"}
  ProbeMod = 4
  NN = 2
  Horizon = 0
  Mode = "c18"
  Pol = "next"
  NotifyDown = TRUE
  MaxTx = 2
  PGossip = FALSE
  PAnnDown = FALSE
  PAnnounce = FALSE
INVARIANTS MonitorsQuiet
PROPERTY Terminates
CHECK_DEADLOCK FALSE
