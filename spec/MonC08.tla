------------------------------- MODULE MonC08 -------------------------------
(***************************************************************************)
(* C08  Notifications faithfully mirror membership and connection state.   *)
(*                                                                         *)
(* History: up    - the member set reconstructed by replaying MemberUp /   *)
(*                  MemberDown / Rename                                    *)
(*          phase - "idle" | "active" | "defunct"                          *)
(* Uses only the notification stream, iter_members / num_members and the   *)
(* call's own arguments.                                                   *)
(***************************************************************************)
EXTENDS MonCommon

C08Init == [up |-> {}, phase |-> "idle", v |-> {}]

\* one notification, folded in order; cur = identity in use at that point
C08Note(a, n) ==
    CASE n.k = "MemberUp" ->
           [a EXCEPT !.up = @ \cup {n.id}, !.v = @ \cup V(n.id \notin a.up, "MemberUp-for-member-already-up")]
      [] n.k = "MemberDown" ->
           [a EXCEPT !.up = @ \ {n.id}, !.v = @ \cup V(n.id \in a.up, "MemberDown-for-member-not-up")]
      [] n.k = "Rename" ->
           [a EXCEPT !.up = IF n.id \in @ THEN (@ \ {n.id}) \cup {n.id2} ELSE @,
                     !.v = @ \cup V(Wins(n.id2, n.id), "Rename-to-identity-that-does-not-win")]
      [] n.k = "Active" ->
           [a EXCEPT !.phase = "active",
                     !.v = @ \cup V(a.phase = "idle", "Active-not-from-idle")
                             \cup V(a.up # {}, "Active-without-members")]
      [] n.k = "Idle" ->
           [a EXCEPT !.phase = "idle",
                     !.v = @ \cup V(a.phase = "active", "Idle-while-not-active")
                             \cup V(a.up = {}, "Idle-with-members-left")]
      [] n.k = "Defunct" -> [a EXCEPT !.phase = "defunct"]
      [] n.k = "Rejoin" ->
           [a EXCEPT !.phase = "idle", !.cur = n.id,
                     !.v = @ \cup V(Wins(n.id, a.cur), "Rejoin-with-identity-that-does-not-win")]
      [] OTHER -> a

RECURSIVE C08Fold(_, _)
C08Fold(a, ns) == IF ns = <<>> THEN a ELSE C08Fold(C08Note(a, Head(ns)), Tail(ns))

\* a cause for Defunct / Rejoin present in this call's input (conservative)
SelfDownCause(o) ==
    LET own == Addr(o.pre.id) IN
    \/ o.call = "leave"
    \/ \E i \in DOMAIN UpdatesIn(o) :
          LET u == UpdatesIn(o)[i] IN
          \* a suspicion at MAX-1 may be followed by another one in the same call
          Addr(u.id) = own /\ (u.st = "D" \/ (u.st = "S" /\ (u.inc >= IncMax - 1 \/ o.hpre.inc >= IncMax - 1)))
    \/ (DataProcessed(o) /\ o.args.h.msg.k = "TurnUndead")

\* the instance certainly learned that its identity is down (API calls only)
SelfDownCertain(o) ==
    \/ (o.call = "leave" /\ o.res = "Ok")
    \/ /\ o.call = "apply_many" /\ o.res = "Ok"
       /\ \E i \in DOMAIN o.args.updates :
             /\ o.args.updates[i].id = o.pre.id
             \* declared Down, or suspected at the maximum incarnation (cannot be refuted any more)
             /\ (o.args.updates[i].st = "D" \/ (o.args.updates[i].st = "S" /\ o.args.updates[i].inc = IncMax
                                                  /\ o.hpre.conn # "U"))
             /\ \A j \in 1..(i - 1) : Addr(o.args.updates[j].id) # Addr(o.pre.id)

C08Step(m, o) ==
    LET ns == Notifs(o.out)
        a0 == [up |-> m.up, phase |-> m.phase, cur |-> o.pre.id, v |-> {}]
        a1 == C08Fold(a0, ns)
        reset == (o.call = "change_identity" /\ o.post.id # o.pre.id) \/ (o.call = "reuse" /\ o.res = "Ok")
        phase == IF reset THEN "idle" ELSE a1.phase
        members == {o.post.members[i].id : i \in DOMAIN o.post.members}
        selfNote == HasNotif(o.out, "Defunct") \/ HasNotif(o.out, "Rejoin")
        v == a1.v
             \cup V(a1.up = members, "replayed-notifications-differ-from-iter_members")
             \cup V(o.post.num = Cardinality(members), "num_members-differs-from-iter_members")
             \cup V(Len(o.post.members) = Cardinality(members), "iter_members-lists-a-member-twice")
             \cup V(phase = "active" => members # {}, "active-with-no-members-(Idle-not-notified)")
             \cup V(selfNote => SelfDownCause(o), "Defunct/Rejoin-without-cause")
             \cup V((SelfDownCertain(o)) => selfNote, "own-identity-down-but-neither-Defunct-nor-Rejoin")
             \cup V((o.call # "change_identity" /\ o.post.id # o.pre.id) => HasNotif(o.out, "Rejoin"),
                    "identity-changed-without-Rejoin")
             \cup V(o.call # "change_identity" => a1.cur = o.post.id, "Rejoin-identity-is-not-the-identity-in-use")
             \cup (IF "acc" \in DOMAIN o
                   THEN V(/\ o.acc.res = o.res
                          /\ o.acc.send = [i \in DOMAIN OSends(o.out) |->
                                              [k |-> "send", dst |-> OSends(o.out)[i].dst, d |-> OSends(o.out)[i].d]]
                          /\ o.acc.timer = OTimers(o.out)
                          /\ o.acc.notify = SelectSeq(o.out, LAMBDA x : x.k = "notify")
                          /\ o.acc.backlog = 0,
                          "AccumulatingRuntime-differs-from-direct-runtime")
                   ELSE {})
    IN [up |-> a1.up, phase |-> phase, v |-> v]
=============================================================================
