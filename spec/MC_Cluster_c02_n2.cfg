SPECIFICATION Spec
CONSTANTS
  IncMax = 3
  TokenMod = 4
  ProbeMod = 4
  NN = 2
  Horizon = 56
  Mode = "c02"
  Pol = "none"
  NotifyDown = FALSE
  MaxTx = 2
  PGossip = FALSE
  PAnnDown = FALSE
  PAnnounce = FALSE
INVARIANTS MonitorsQuiet C02DiscoveryStrict
VIEW View
CHECK_DEADLOCK FALSE
