------------------------------- MODULE MonC07 -------------------------------
(***************************************************************************)
(* C07  Every emitted datagram is well-formed, bounded and accepted by its *)
(*      peer.  Evaluated on the independent parser's view of the bytes     *)
(*      handed to send_to (field d of a send effect) and on the result of  *)
(*      handing those bytes to a peer with the same codec, packet size and *)
(*      handler (field peer, filled by the harness).                       *)
(***************************************************************************)
EXTENDS MonCommon

C07Init == [v |-> {}]

ActiveIdsPub(p) == {p.members[i].id : i \in DOMAIN p.members}

WellFormed(o, s) ==
    LET d == s.d
        k == d.h.msg.k
        maxpkt == IF o.call = "set_config" THEN o.hpost.cfg.maxpkt ELSE o.hpre.cfg.maxpkt
    IN  V(d.hok, "header-unparseable")
        \cup (IF ~d.hok THEN {} ELSE
              V(d.len <= maxpkt, "larger-than-max_packet_size")
              \cup V(d.h.src \in {o.pre.id, o.post.id} \/ HasNotif(o.out, "Rejoin"), "source-is-not-the-current-identity")
              \cup V(d.h.src = o.post.id => d.h.inc <= o.hpost.inc, "source-incarnation-is-not-the-current-one")
              \cup V(d.h.src = o.pre.id /\ o.pre.id = o.post.id => d.h.inc >= o.hpre.inc,
                     "source-incarnation-is-not-the-current-one")
              \cup V(d.h.dst = s.dst, "header-destination-differs-from-send_to-destination")
              \cup V(k \in {"Announce", "TurnUndead"} => d.len = d.hs, "Announce/TurnUndead-carries-data")
              \cup V(k = "Broadcast" => d.mem = <<>> /\ d.tally = -1, "Broadcast-carries-member-section")
              \cup V(NeedsPiggyback(k) =>
                        \/ d.len = d.hs
                        \/ (d.tally >= 0 /\ ~d.memfail /\ Len(d.mem) = d.tally),
                     "member-section-does-not-match-its-count")
              \cup V(d.tailok /\ d.trail = 0, "custom-tail-malformed-or-trailing-bytes")
              \cup V(\A i \in DOMAIN d.items : d.items[i].sz >= 1, "empty-custom-item")
              \cup V(d.len = d.hs + (IF d.tally >= 0 THEN 2 ELSE 0) + SumSeq(d.msz)
                             + SumSeq([i \in DOMAIN d.items |-> d.items[i].sz + 2]),
                     "bytes-unaccounted-for")
              \cup V(k = "Feed" =>
                        \A i \in DOMAIN d.mem :
                            /\ d.mem[i].id \in (ActiveIdsPub(o.pre) \cup ActiveIdsPub(o.post))
                            /\ d.mem[i].id # s.dst /\ d.mem[i].id # d.h.src
                            /\ d.mem[i].st # "D",
                     "Feed-lists-inactive-member-or-receiver-or-sender")
              \cup V(k = "Feed" => IsDistinct(d.mem), "Feed-lists-a-member-twice")
              \cup V("peer" \in DOMAIN s =>
                        s.peer \notin {"Err:Decode", "Err:MalformedPacket", "Err:DataTooBig", "Panic"},
                     "peer-rejects-datagram"))

C07Step(m, o) ==
    LET S == OSends(o.out) IN
    [v |-> UNION {WellFormed(o, S[i]) : i \in DOMAIN S}]
=============================================================================
