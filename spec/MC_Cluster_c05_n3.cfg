SPECIFICATION Spec
CONSTANTS
  IncMax = 3
  TokenMod = 4
  ProbeMod = 4
  NN = 3
  Horizon = 80
  Mode = "c05"
  Pol = "next"
  NotifyDown = TRUE
  MaxTx = 2
  PGossip = FALSE
  PAnnDown = TRUE
  PAnnounce = FALSE
INVARIANTS MonitorsQuiet C05Converges
VIEW View
CHECK_DEADLOCK FALSE
