------------------------------- MODULE MC_C15 -------------------------------
(***************************************************************************)
(* C15 / C16 on the Backlog component alone, exhaustively: every history   *)
(* of accepting updates (add_or_replace: one entry per key, fresher        *)
(* replaces) and assembling datagrams (EVERY legal outcome of fill for     *)
(* every amount of space, i.e. every tie-break of the heap) over a small   *)
(* domain.  Per entry the model keeps how often it has been transmitted    *)
(* since it was accepted.                                                  *)
(*   Overhead = 0: cluster updates (fill);  2: custom items (len prefix).  *)
(***************************************************************************)
EXTENDS Backlog

IsInjective(s) == \A i, j \in DOMAIN s : i # j => s[i] # s[j]

CONSTANTS Keys, Sizes, MaxTx, MaxSpace, Overhead, MaxOps

VARIABLES bl,     \* backlog: sequence of [key, ver, sz, tx, sent]
          ops, lastFill
vars == <<bl, ops, lastFill>>

Init == bl = <<>> /\ ops = 0 /\ lastFill = [inc |-> <<>>, space |-> 0, before |-> <<>>]

\* add_or_replace: drop every entry with the same key, push the new one with tx = MaxTx
Accept(k, sz) ==
    /\ ops < MaxOps
    /\ LET ver == ops
           e == [key |-> k, ver |-> ver, sz |-> sz, tx |-> MaxTx, sent |-> 0]
       IN bl' = Append(SelectSeq(bl, LAMBDA o : o.key # k), e)
    /\ ops' = ops + 1
    /\ lastFill' = [inc |-> <<>>, space |-> 0, before |-> <<>>]

\* all sequences of distinct indices of bl (candidate write orders)
IdxSeqs == UNION {{s \in [1..n -> DOMAIN bl] : IsInjective(s)} : n \in 0..Len(bl)}

Fill(space) ==
    /\ ops < MaxOps
    /\ \E is \in IdxSeqs :
         LET inc == [i \in DOMAIN is |-> bl[is[i]]] IN
         /\ FillOk(bl, space, inc, Overhead)
         /\ bl' = LET rest == RemoveAll(bl, inc)
                      dec == [i \in DOMAIN inc |-> [inc[i] EXCEPT !.tx = @ - 1, !.sent = @ + 1]]
                  IN rest \o SelectSeq(dec, LAMBDA e : e.tx > 0)
         /\ lastFill' = [inc |-> inc, space |-> space, before |-> bl]
    /\ ops' = ops + 1

Next == (\E k \in Keys, sz \in Sizes : Accept(k, sz)) \/ (\E sp \in 0..MaxSpace : Fill(sp))
Spec == Init /\ [][Next]_vars

-----------------------------------------------------------------------------
OnePerKey == \A i, j \in DOMAIN bl : i # j => bl[i].key # bl[j].key
Accounting == \A i \in DOMAIN bl : bl[i].tx + bl[i].sent = MaxTx /\ bl[i].tx >= 1
\* an entry that left through transmission was sent exactly MaxTx times
LeavesAfterExactlyMaxTx ==
    \A i \in DOMAIN lastFill.inc :
        LET e == lastFill.inc[i] IN
        (\A j \in DOMAIN bl : bl[j].key # e.key \/ bl[j].ver # e.ver) => e.sent + 1 = MaxTx
\* what was left out did not fit in the space that was left; precedence by remaining transmissions
NothingFittingOmitted ==
    LET used == FillUsed(lastFill.inc, Overhead)
        rest == RemoveAll(lastFill.before, lastFill.inc)
    IN /\ used <= lastFill.space
       /\ \A i \in DOMAIN rest :
            \* an omitted entry with at least the priority of everything written does not fit in what is left
            (\A j \in DOMAIN lastFill.inc : PrioGe(rest[i], lastFill.inc[j])) =>
                Cost(rest[i], Overhead) > lastFill.space - used
       /\ \A i, j \in DOMAIN lastFill.inc : i < j => PrioGe(lastFill.inc[i], lastFill.inc[j])
\* the canonical fill used by the model checker's auto mode is one of the legal fills
CanonIsLegal == \A sp \in 0..MaxSpace : FillOk(bl, sp, CanonFill(bl, sp, Overhead), Overhead)
=============================================================================
