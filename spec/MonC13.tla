------------------------------- MODULE MonC13 -------------------------------
(***************************************************************************)
(* C13  Timer epochs: recurring loops are never lost, duplicated or        *)
(*      resurrected.                                                       *)
(*                                                                         *)
(* The epoch is inferred from what the user sees: Idle / Defunct / Rejoin  *)
(* notifications, change_identity and reuse_down_identity end an epoch.    *)
(* Every timer handed to submit_after is remembered with the epoch it was  *)
(* issued in; "effective" = issued in the current epoch and still pending. *)
(* History: epoch, active, pending (sequence of [t, tag])                  *)
(* The exactly-once clauses presuppose a runtime that delivers every timer *)
(* exactly once: they are switched off in runs with forged / duplicated    *)
(* timers (env.forge) and after a timer that was never issued shows up.    *)
(***************************************************************************)
EXTENDS MonCommon

C13Init == [epoch |-> 0, active |-> FALSE, pending |-> <<>>, exact |-> TRUE, v |-> {}]

Tokened(k) == k # "RemoveDown"
Periodic == {"Announce", "AnnounceDown", "Gossip"}

RECURSIVE RemoveFirst(_, _)
RemoveFirst(s, t) ==
    IF s = <<>> THEN <<>>
    ELSE IF Head(s).t = t THEN Tail(s) ELSE <<Head(s)>> \o RemoveFirst(Tail(s), t)

FirstTag(s, t) == LET I == {i \in DOMAIN s : s[i].t = t} IN
                  IF I = {} THEN -1 ELSE s[CHOOSE i \in I : \A j \in I : i <= j].tag

C13Eff(a, e) ==
    IF e.k = "timer" THEN [a EXCEPT !.pending = Append(@, [t |-> e.t, tag |-> a.epoch])]
    ELSE IF e.k = "notify" /\ e.n.k \in {"Idle", "Defunct", "Rejoin"}
         THEN [a EXCEPT !.epoch = @ + 1, !.active = FALSE]
    ELSE IF e.k = "notify" /\ e.n.k = "Active" THEN [a EXCEPT !.active = TRUE]
    ELSE a

RECURSIVE C13Fold(_, _)
C13Fold(a, out) == IF out = <<>> THEN a ELSE C13Fold(C13Eff(a, Head(out)), Tail(out))

Eff(a, k) == Cardinality({i \in DOMAIN a.pending : a.pending[i].tag = a.epoch /\ a.pending[i].t.k = k})

CfgTask(cfg, k) == CASE k = "Announce" -> cfg.pa [] k = "AnnounceDown" -> cfg.pad [] k = "Gossip" -> cfg.pg

C13Step(m, o) ==
    LET isTimer == o.call = "timer"
        tag == IF isTimer
               THEN FirstTag(SelectSeq(m.pending, LAMBDA p : ~Tokened(p.t.k) \/ m.epoch - p.tag < TokenMod), o.args)
               ELSE -1
        known == isTimer /\ tag >= 0
        exact == m.exact /\ ~o.env.forge /\ (isTimer => known)
        \* the property assumes fewer than TokenMod epoch changes between issue and delivery:
        \* entries older than that are outside its scope and are forgotten
        live == SelectSeq(m.pending, LAMBDA p : ~Tokened(p.t.k) \/ m.epoch - p.tag < TokenMod)
        p0 == IF known THEN RemoveFirst(live, o.args) ELSE live
        \* change_identity / reuse end the epoch before anything else happens in the call
        bump == (o.call = "change_identity" /\ o.post.id # o.pre.id) \/ (o.call = "reuse" /\ o.res = "Ok")
        a0 == [epoch |-> IF bump THEN m.epoch + 1 ELSE m.epoch,
               active |-> IF bump THEN FALSE ELSE m.active,
               pending |-> p0]
        a1 == C13Fold(a0, o.out)
        stale == known /\ Tokened(o.args.k) /\ tag < m.epoch /\ m.epoch - tag < TokenMod
        cfg == o.hpost.cfg
        v == (IF stale
              THEN V(o.res = "Ok" /\ o.out = <<>> /\ o.post = o.pre
                     /\ [o.hpost EXCEPT !.draws = 0] = [o.hpre EXCEPT !.draws = 0],
                     "stale-epoch-timer-had-an-effect")
              ELSE {})
             \cup (IF exact
                   THEN V(a1.active => Eff(a1, "Probe") = 1, "active-without-exactly-one-probe-timer")
                        \cup V(a1.active => \A k \in Periodic :
                                   (CfgTask(cfg, k) # <<>> => Eff(a1, k) = 1) /\ Eff(a1, k) <= 1,
                               "active-without-exactly-one-timer-per-enabled-periodic-task")
                        \cup V(~a1.active => Eff(a1, "Probe") = 0 /\ \A k \in Periodic : Eff(a1, k) = 0,
                               "inactive-instance-holds-an-effective-recurring-timer")
                        \* (Err:Encode is the codec's verdict on a header that does not fit max_packet_size, not an
                        \*  error of the timer machinery)
                        \cup V((isTimer /\ o.env.ordered) => o.res \in {"Ok", "Err:Encode"},
                               "handle_timer-error-under-deadline-order-delivery")
                        \cup V(isTimer => o.res \in {"Ok", "Err:IncompleteProbeCycle", "Err:Encode"},
                               "handle_timer-error-other-than-IncompleteProbeCycle")
                        \* hook cross-check: effective <=> carries the current token
                        \cup V(\A i \in DOMAIN a1.pending :
                                  (Tokened(a1.pending[i].t.k) /\ a1.epoch - a1.pending[i].tag < TokenMod) =>
                                     ((a1.pending[i].tag = a1.epoch) <=> (a1.pending[i].t.tok = o.hpost.tok)),
                               "hook:epoch-inferred-from-notifications-disagrees-with-timer-token")
                   ELSE {})
    IN [epoch |-> a1.epoch, active |-> a1.active, pending |-> a1.pending, exact |-> exact, v |-> v]
=============================================================================
