SPECIFICATION Spec
CONSTANTS
  IncMax = 2
  TokenMod = 4
  Fixes = {"654ac52", "3f5c312", "66b62cc", "7418747", "f6702a7", "73fde95", "ea3a2f4", "6ca130a", "a23716c"}
  ProbeMod = 4
  Addrs = {2, 3}
  Gens = {0, 1, 2}
  Incs = {0, 1, 2}
INVARIANTS Monotone IsJoin Commutes Idempotent OneRowPerAddress SelfReapply Exchange CountOk AgreesWithRecordLevel
CHECK_DEADLOCK FALSE
