----------------------------- MODULE FocaTypes -----------------------------
(***************************************************************************)
(* Vocabulary shared by every module of the foca specification.            *)
(*                                                                         *)
(* identity   <<addr, gen>>          (identity.rs; NoId = <<0,0>> is "none")*)
(* member     [id, inc, st]          st \in {"A","S","D"}   (member.rs)    *)
(* message    [k, n, id]             (payload.rs)                          *)
(* timer      [k, tok, id, inc]      (runtime.rs)                          *)
(* notif.     [k, id, id2]           (runtime.rs)                          *)
(* effects    [k|->"send",dst,d] [k|->"timer",t,after] [k|->"notify",n]    *)
(***************************************************************************)
EXTENDS Naturals, Integers, Sequences, FiniteSets, TLC

CONSTANTS IncMax,     \* Incarnation::MAX (65535 in the code)
          TokenMod,   \* timer token modulus (256)
          ProbeMod,   \* probe number modulus (256)
          Fixes       \* the "fix:" commits of /repo the specification follows (all of them, normally);
                      \* leaving one out gives the behaviour of the pinned tree before that repair, which
                      \* the self-test uses to show that TLC finds each defect in the model as well

Fixed(sha) == sha \in Fixes
AllFixes == {"654ac52", "3f5c312", "66b62cc", "7418747", "f6702a7", "73fde95", "ea3a2f4", "6ca130a", "a23716c"}

NoId == <<0, 0>>
Addr(id) == id[1]
Gen(id) == id[2]

\* a.win_addr_conflict(b): strict total order among identities of one address
Wins(a, b) == a[1] = b[1] /\ a[2] > b[2]

Min(a, b) == IF a < b THEN a ELSE b
Max(a, b) == IF a > b THEN a ELSE b

Range(s) == {s[i] : i \in DOMAIN s}

Mem(id, inc, st) == [id |-> id, inc |-> inc, st |-> st]
IsActive(m) == m.st # "D"
DownOf(id) == Mem(id, 0, "D")

States == {"A", "S", "D"}
Rank(st) == CASE st = "A" -> 0 [] st = "S" -> 1 [] st = "D" -> 2

Msg(k, n, id) == [k |-> k, n |-> n, id |-> id]
MsgKinds == {"Ping", "Ack", "PingReq", "IndirectPing", "IndirectAck", "ForwardedAck",
             "Announce", "Feed", "Gossip", "Broadcast", "TurnUndead"}
NeedsPiggyback(k) == k \notin {"Announce", "TurnUndead", "Broadcast"}
AllowCustom(k) == k \notin {"Announce", "TurnUndead"}
HasNum(k) == k \in {"Ping", "Ack", "PingReq", "IndirectPing", "IndirectAck", "ForwardedAck"}
HasId(k) == k \in {"PingReq", "IndirectPing", "IndirectAck", "ForwardedAck"}

Hdr(src, inc, dst, msg) == [src |-> src, inc |-> inc, dst |-> dst, msg |-> msg]

Tm(k, tok, id, inc) == [k |-> k, tok |-> tok, id |-> id, inc |-> inc]
TmProbe(tok) == Tm("Probe", tok, NoId, 0)
TmIndirect(id, tok) == Tm("Indirect", tok, id, 0)
TmSuspect(id, inc, tok) == Tm("Suspect", tok, id, inc)
TmAnnounce(tok) == Tm("Announce", tok, NoId, 0)
TmAnnounceDown(tok) == Tm("AnnounceDown", tok, NoId, 0)
TmGossip(tok) == Tm("Gossip", tok, NoId, 0)
TmRemoveDown(id) == Tm("RemoveDown", -1, id, 0)
\* Timer::seq (runtime.rs:262): order used to break ties among due timers
TimerSeq(k) == CASE k = "Indirect" -> 0 [] k = "Probe" -> 1 [] k = "Suspect" -> 2
                 [] k = "Announce" -> 3 [] k = "Gossip" -> 4 [] k = "RemoveDown" -> 5
                 [] k = "AnnounceDown" -> 6

Note(k, id, id2) == [k |-> k, id |-> id, id2 |-> id2]

EffSend(dst, d) == [k |-> "send", dst |-> dst, d |-> d]
EffTimer(t, after) == [k |-> "timer", t |-> t, after |-> after]
EffNotify(n) == [k |-> "notify", n |-> n]

(***************************************************************************)
(* Codec as an environment function: only encoded sizes matter.  These     *)
(* mirror the harness' hand-written codec (harness/src/codec.rs).          *)
(***************************************************************************)
IdSize(c, id) == CASE c = "fixed" -> 3
                   [] c = "var" -> 4 + (id[1] % 3)
                   [] c = "tiny" -> 1
                   [] OTHER -> 3
MSize(c, m) == IdSize(c, m.id) + 3
HSize(c, h) == IdSize(c, h.src) + 2 + IdSize(c, h.dst) + 1
               + (IF HasNum(h.msg.k) THEN 1 ELSE 0)
               + (IF HasId(h.msg.k) THEN IdSize(c, h.msg.id) ELSE 0)
Representable(c, id) == c # "tiny" \/ (id[1] <= 15 /\ id[2] <= 15)

(***************************************************************************)
(* Identity::renew for the four policies used by the harness (id.rs)       *)
(* result: <<>> (None) or <<new identity>>                                 *)
(***************************************************************************)
Renew(pol, id) ==
    CASE pol = "none" -> <<>>
      [] pol = "next" -> <<(<<id[1], id[2] + 1>>)>>
      [] pol = "same" -> <<id>>
      [] pol = "losing" -> <<(<<id[1], IF id[2] > 0 THEN id[2] - 1 ELSE 0>>)>>
      [] pol = "cycle" -> <<(<<id[1], (id[2] + 1) % 4>>)>>

\* should_add_broadcast_data for the harness' predicates
PredHolds(p, id) == CASE p = "all" -> TRUE
                      [] p = "even" -> id[1] % 2 = 0
                      [] p = "nobody" -> FALSE

\* Invalidates for the harness' key relations: does `new` invalidate `old`?
Invalidates(rel, new, old) ==
    CASE rel = "samekey" -> new.key = old.key
      [] rel = "newer" -> new.key = old.key /\ new.ver >= old.ver
      [] rel = "never" -> FALSE

\* bags as sequences: equality up to order
BagOf(s) == [x \in Range(s) |-> Cardinality({i \in DOMAIN s : s[i] = x})]
BagEq(s, t) == Len(s) = Len(t) /\ BagOf(s) = BagOf(t)

RECURSIVE SumSeq(_)
SumSeq(s) == IF s = <<>> THEN 0 ELSE Head(s) + SumSeq(Tail(s))

IsDistinct(s) == \A i, j \in DOMAIN s : i # j => s[i] # s[j]
=============================================================================
