------------------------------- MODULE MonC16 -------------------------------
(***************************************************************************)
(* C16  Custom broadcasts: delivered intact, only where allowed,           *)
(*      invalidated promptly.                                              *)
(*                                                                         *)
(* Stateless per call.  Reads the custom tails of the datagrams sent, the  *)
(* BroadcastHandler's call log (hlog: item, sender, verdict), the backlog  *)
(* before and after (hook; custom_broadcast_backlog as public cross-check) *)
(* and the handler's static parameters (invalidation relation, recipient   *)
(* predicate).  The per-entry accounting is only applied when all entries  *)
(* have distinct contents (a handler that never invalidates may hold the   *)
(* same item several times; then only the order-insensitive clauses apply).*)
(***************************************************************************)
EXTENDS MonCommon

C16Init == [v |-> {}]

WithItems(out) == SelectSeq(OSends(out), LAMBDA s : s.d.hok /\ s.d.items # <<>>)
ItemsOn(out) == UNION {Range(WithItems(out)[i].d.items) : i \in DOMAIN WithItems(out)}
CarriedI(out, it) == Cardinality({i \in DOMAIN WithItems(out) : it \in Range(WithItems(out)[i].d.items)})
ContentsI(E) == {ItemOf(E[i]) : i \in DOMAIN E}
TxOfI(E, it) == E[CHOOSE i \in DOMAIN E : ItemOf(E[i]) = it].tx
Distinct(E) == Cardinality(ContentsI(E)) = Len(E)

C16Step(m, o) ==
    LET E0 == o.hpre.cus
        E1 == o.hpost.cus
        maxtx == o.hpre.cfg.maxtx
        rel == o.static.hrel
        accepted == SelectSeq(o.hlog, LAMBDA x : x.v = 1)
        accItems == {accepted[i].item : i \in DOMAIN accepted}
        wire == ItemsOn(o.out)
        S == OSends(o.out)
        exact == Distinct(E0) /\ Distinct(E1)
        active0 == {o.pre.members[i].id : i \in DOMAIN o.pre.members}
        \* --- receiver side: the handler sees exactly the items of the datagram, in order, with the sender
        senderActive == DataProcessed(o) /\
                        LET r == RowOf(o.post.state, Addr(o.args.h.src)) IN
                        r # <<>> /\ r[1].id = o.args.h.src /\ IsActive(r[1])
        items == IF o.call = "data" THEN o.args.items ELSE <<>>
        stopAt == LET B == {i \in DOMAIN o.hlog : o.hlog[i].v = 2} IN
                  IF B = {} THEN Len(items) ELSE CHOOSE i \in B : \A j \in B : i <= j
    IN [v |->
          \* every item on the wire: whole, on a kind that may carry it, to a recipient the handler allows
          V(\A i \in DOMAIN S : \A j \in DOMAIN S[i].d.items :
                /\ S[i].d.items[j].intact
                /\ AllowCustom(S[i].d.h.msg.k)
                /\ PredHolds(o.static.hpred, S[i].dst),
            "custom-item-damaged-or-on-a-kind/recipient-that-must-not-carry-it")
          \cup V(\A it \in wire : it \in ContentsI(E0) \/ it \in ContentsI(E1) \/ it \in accItems,
                 "custom-item-on-the-wire-that-was-not-in-the-backlog")
          \cup V(o.post.cbl = Len(E1), "custom_broadcast_backlog-differs-from-the-backlog")
          \* accounting (distinct contents only)
          \cup (IF ~exact THEN {} ELSE
                V(\A i \in DOMAIN E1 :
                     LET it == ItemOf(E1[i]) c == CarriedI(o.out, it) IN
                     \/ (it \in ContentsI(E0) /\ it \notin accItems /\ E1[i].tx = TxOfI(E0, it) - c)
                     \/ (it \in accItems /\ \E k \in 0..c : E1[i].tx = maxtx - k)
                     \/ (it \in accItems /\ it \in ContentsI(E0) /\ E1[i].tx = TxOfI(E0, it) - c),
                  "remaining-transmissions-of-a-custom-item-do-not-match-the-datagrams-sent")
                \cup V(\A i \in DOMAIN E0 :
                          LET it == ItemOf(E0[i]) c == CarriedI(o.out, it) IN
                          \/ it \in ContentsI(E1)
                          \/ E0[i].tx - c = 0
                          \/ \E k \in accItems : Invalidates(rel, k, it)
                          \/ (it \in accItems),
                       "custom-item-left-the-backlog-early-without-being-invalidated"))
          \* an item invalidated by a newly accepted key is gone (unless it was itself accepted later)
          \cup V(\A i \in DOMAIN accepted : \A j \in DOMAIN E1 :
                    (Invalidates(rel, accepted[i].item, ItemOf(E1[j])) /\ ItemOf(E1[j]) # accepted[i].item) =>
                       \E k \in DOMAIN accepted : k > i /\ accepted[k].item = ItemOf(E1[j]),
                 "invalidated-item-still-in-the-backlog")
          \* receiver: exactly the items sent, once each, in order, with the sender's identity
          \cup V(o.call = "data" =>
                    /\ Len(o.hlog) <= Len(items)
                    /\ \A i \in DOMAIN o.hlog : o.hlog[i].item = items[i] /\ o.hlog[i].from = <<o.args.h.src>>,
                 "handler-saw-something-else-than-the-items-of-the-datagram")
          \cup V((senderActive /\ o.res \in {"Ok", "Err:CustomBroadcast", "Err:MalformedPacket", "Err:IndirectForOurselves"}) =>
                    Len(o.hlog) = stopAt,
                 "handler-did-not-see-every-item-of-an-accepted-datagram")
          \cup V((o.call = "data" /\ ~DataProcessed(o)) => o.hlog = <<>>, "rejected-datagram-reached-the-handler")
          \* broadcast()
          \cup (IF o.call # "broadcast" THEN {} ELSE
                V(\A i \in DOMAIN S : S[i].d.h.msg.k = "Broadcast" /\ S[i].d.mem = <<>> /\ S[i].d.tally = -1,
                  "broadcast()-sent-something-else-than-Broadcast-datagrams-without-updates")
                \cup V(Len(S) <= o.hpre.cfg.fanout, "broadcast()-sent-to-more-than-num_indirect_probes-members")
                \cup V(IsDistinct([i \in DOMAIN S |-> S[i].dst]), "broadcast()-sent-twice-to-a-member")
                \cup V(\A i \in DOMAIN S : S[i].dst \in active0 /\ PredHolds(o.static.hpred, S[i].dst),
                       "broadcast()-sent-to-an-inactive-or-ineligible-member")
                \cup V(E0 = <<>> => S = <<>>, "broadcast()-sent-although-the-backlog-was-empty")
                \* (a Broadcast without items is legal when nothing fits; it is not when the backlog had
                \*  been drained by an earlier datagram of the same call)
                \* (with variable-length identities an earlier datagram may have had no room while a later one
                \*  drains the backlog: only datagrams AFTER the draining one are forbidden)
                \cup V((E1 = <<>> /\ S # <<>>) => S[Len(S)].d.items # <<>>,
                       "broadcast()-kept-sending-after-the-backlog-was-drained")
                \cup V(LET elig == {x \in active0 : PredHolds(o.static.hpred, x)} IN
                       (o.res = "Ok" /\ Len(S) < Min(o.hpre.cfg.fanout, Cardinality(elig))) => E1 = <<>>,
                       "broadcast()-stopped-early-although-items-were-left"))]
=============================================================================
