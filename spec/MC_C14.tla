------------------------------- MODULE MC_C14 -------------------------------
(***************************************************************************)
(* C14 on the specification: Members!NextMember (the exact transcription   *)
(* of Members::next) from EVERY initial arrangement - every order of NA    *)
(* active and ND Down records, every cursor 0..len and MAX - with every    *)
(* permutation whenever a reshuffle is due.  Invariant: no active member   *)
(* goes more than 2n-2 rounds without being chosen, the chosen record is   *)
(* active.  The bound is tight (2n-3 is violated).                         *)
(***************************************************************************)
EXTENDS Members, TLC

CONSTANTS NA, ND      \* number of active / Down records

VARIABLES mem, cursor, since, rounds
vars == <<mem, cursor, since, rounds>>

ActiveI == 1..NA
DownI == (NA + 1)..(NA + ND)
Rec(i) == Mem(<<i + 1, 0>>, 0, IF i \in ActiveI THEN "A" ELSE "D")
Perms == Permutations(1..(NA + ND))
SeqOf(p) == [i \in 1..(NA + ND) |-> Rec(p[i])]

Init == /\ \E p \in Perms : mem = SeqOf(p)
        /\ cursor \in (0..(NA + ND)) \cup {-1}
        /\ since = [i \in ActiveI |-> 0]
        /\ rounds = 0

Next ==
    \E p \in Perms :
      LET shuffled == [i \in 1..(NA + ND) |-> mem[p[i]]]
          needShuffle == cursor < 0 \/ cursor >= Len(mem)
          nx == NextMember(mem, cursor, shuffled)
      IN /\ (~needShuffle => p = [i \in 1..(NA + ND) |-> i])   \* the permutation only matters when a shuffle is due
         /\ nx.pos # 0
         /\ mem' = nx.mem
         /\ cursor' = nx.cursor
         /\ since' = [i \in ActiveI |-> IF Rec(i) = nx.mem[nx.pos] THEN 0 ELSE since[i] + 1]
         /\ rounds' = IF rounds < 2 * NA THEN rounds + 1 ELSE rounds

Spec == Init /\ [][Next]_vars

Window == \A i \in ActiveI : since[i] <= 2 * NA - 2
ChosenActive == TRUE   \* enforced in Next through nx.pos: see NeverDown
NeverDown == \A p \in Perms :
                LET nx == NextMember(mem, cursor, [i \in 1..(NA + ND) |-> mem[p[i]]]) IN
                nx.pos # 0 /\ IsActive(nx.mem[nx.pos])
\* tightness witness: this one must be VIOLATED (checked by the self-test, not by the property check)
TooTight == \A i \in ActiveI : since[i] <= 2 * NA - 3
=============================================================================
