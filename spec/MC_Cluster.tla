----------------------------- MODULE MC_Cluster -----------------------------
(***************************************************************************)
(* Cluster: NN instances of FocaNode, a network, per-node timers, an       *)
(* integer clock and fault actions, with the cluster-level monitors        *)
(* (MonCluster) evaluated on every step.                                   *)
(*                                                                         *)
(* Time is a coarse grid (probe_rtt = 1 tick, probe_period = 3,            *)
(* suspect_to_down_after = 5): a datagram is delivered within the tick it  *)
(* was sent in, in every interleaving with everything else due in that     *)
(* tick; Tick is enabled only when nothing is due (messages and timers are *)
(* urgent), so every timer fires on time and every datagram arrives well   *)
(* within probe_rtt.  Among the timers of ONE node that are due, the one   *)
(* with the earliest deadline (then Timer's own order) fires first, as a   *)
(* runtime that sorts its timers does.                                     *)
(*                                                                         *)
(* Mode selects the fault actions: "c02" none; "c03" Crash / Leave (any    *)
(* node, any moment after formation); "c04" Drop with budget 1; "c18"      *)
(* timers held, arbitrary mutual knowledge, one injected datagram.         *)
(***************************************************************************)
EXTENDS MonCluster, MonCommon

CONSTANTS NN, Horizon, Mode, Pol, NotifyDown, MaxTx, PGossip, PAnnounce, PAnnDown

VARIABLES st, net, tmr, now, status, g, bad, budget, formedAt, part
vars == <<st, net, tmr, now, status, g, bad, budget, formedAt, part>>

Nodes == 0..(NN - 1)
IdOf(n) == <<n + 1, 0>>
Prefs == IF Mode = "c05" THEN {<<>>}
         ELSE {Ranked({IdOf(n) : n \in Nodes}, <<>>), Ranked({IdOf(n) : n \in Nodes}, <<IdOf(NN - 1)>>)}

Cfg == [period |-> 3, rtt |-> 1, fanout |-> 2, maxtx |-> MaxTx, s2d |-> 5, rda |-> 60, maxpkt |-> 1400,
        notifydown |-> NotifyDown,
        pa |-> IF PAnnounce THEN <<[f |-> 3, n |-> 1]>> ELSE <<>>,
        pad |-> IF PAnnDown THEN <<[f |-> 4, n |-> 2]>> ELSE <<>>,
        pg |-> IF PGossip THEN <<[f |-> 2, n |-> 2]>> ELSE <<>>]

Hdr0 == [n |-> NN, period |-> Cfg.period, s2d |-> Cfg.s2d, fanout |-> Cfg.fanout, pad |-> IF PAnnDown THEN 4 ELSE 0, run |-> 0,
         driver |-> Mode, pa |-> IF PAnnounce THEN 3 ELSE 0, maxtx |-> MaxTx]

Tape(pref) == [EmptyTape EXCEPT !.auto = TRUE, !.pref = pref]

\* one public call on node n; returns the new global pieces and the event record
Call(n, call, args, pref) ==
    LET r == Step(st[n], call, args, Tape(pref), <<>>, TRUE)
        out == ObsOut(st[n].codec, r.out)
        e == [ev |-> "call", node |-> n, call |-> call, args |-> args, res |-> r.res, out |-> out,
              pub |-> PubOf(r.st), now |-> now]
        sends == OSends(r.out)
        timers == OTimers(r.out)
    IN [st |-> r.st, e |-> e,
        net |-> [i \in DOMAIN sends |-> [to |-> Addr(sends[i].dst) - 1, from |-> n,
                                         d |-> ObsDgram(st[n].codec, sends[i].d)]],
        tmr |-> [i \in DOMAIN timers |-> [node |-> n, t |-> timers[i].t, due |-> now + timers[i].after]]]

\* evaluates the monitor of the current mode on the event
Mon(g0, g1, e) ==
    CASE Mode = "c02" -> C02Call(g0, g1, e)
      [] Mode = "c03" -> C03Call(g0, g1, e)
      [] Mode = "c04" -> C04Call(g0, g1, e)
      [] Mode = "c18" -> C18Call(g0, g1, e)
      [] Mode = "c05" -> C05Call(g0, g1, e)

Commit(n, c, netRest, tmrRest) ==
    LET g1 == GCall(g, c.e)
        g2 == C05Track(C03Track(g1, c.e), c.e)
    IN /\ st' = [st EXCEPT ![n] = c.st]
       /\ net' = netRest \o c.net
       /\ tmr' = tmrRest \o c.tmr
       /\ g' = g2
       /\ bad' = bad \cup Mon(g, g1, c.e)
       /\ UNCHANGED <<now, status, budget, part>>

DropAt(s, i) == [j \in 1..(Len(s) - 1) |-> IF j < i THEN s[j] ELSE s[j + 1]]

Init ==
    /\ st = [n \in Nodes |-> NodeInit(IdOf(n), Pol, "fixed", "samekey", "all", Cfg)]
    \* nodes 1.. have just announced to node 0
    /\ net = [i \in 1..(NN - 1) |->
                [to |-> 0, from |-> i,
                 d |-> ObsDgram("fixed", Dgram(Hdr(IdOf(i), 0, IdOf(0), Msg("Announce", 0, NoId)),
                                               HSize("fixed", Hdr(IdOf(i), 0, IdOf(0), Msg("Announce", 0, NoId))),
                                               -1, <<>>, <<>>,
                                               HSize("fixed", Hdr(IdOf(i), 0, IdOf(0), Msg("Announce", 0, NoId)))))]]
    /\ tmr = <<>>
    /\ now = 0
    /\ status = [n \in Nodes |-> "up"]
    /\ g = [GInit(Hdr0) EXCEPT !.ids = [n \in Nodes |-> IdOf(n)], !.status = [n \in Nodes |-> "up"],
                               !.view = [n \in Nodes |-> <<>>], !.told = [n \in Nodes |-> {}], !.formed = (Mode = "c04")]
    /\ bad = {}
    /\ budget = 1
    /\ formedAt = -1
    /\ part = "none"

\* C05: the split {0} | {1..}; a datagram crossing the cut is lost
Grp(n) == IF n = 0 THEN 0 ELSE 1
Crosses(m) == part = "cut" /\ Grp(m.from) # Grp(m.to)

Deliver ==
    \E i \in DOMAIN net : \E pref \in Prefs :
        LET m == net[i] IN
        IF (status[m.to] # "up" /\ status[m.to] # "left") \/ Crosses(m)
        THEN /\ net' = DropAt(net, i) /\ UNCHANGED <<st, tmr, now, status, g, bad, budget, part>>
        ELSE Commit(m.to, Call(m.to, "data", m.d, pref), DropAt(net, i), tmr)

\* the timer node n fires next: earliest deadline, then Timer::seq
NextTimer(n) ==
    LET D == {i \in DOMAIN tmr : tmr[i].node = n /\ tmr[i].due <= now} IN
    IF D = {} THEN 0
    ELSE CHOOSE i \in D : \A j \in D :
            \/ tmr[i].due < tmr[j].due
            \/ (tmr[i].due = tmr[j].due /\ TimerSeq(tmr[i].t.k) < TimerSeq(tmr[j].t.k))
            \/ (tmr[i].due = tmr[j].due /\ TimerSeq(tmr[i].t.k) = TimerSeq(tmr[j].t.k) /\ i <= j)

Fire ==
    Mode # "c18" /\
    \E n \in Nodes : \E pref \in Prefs :
        LET i == NextTimer(n) IN
        /\ i # 0
        /\ IF status[n] = "crashed"
           THEN /\ tmr' = DropAt(tmr, i) /\ UNCHANGED <<st, net, now, status, g, bad, budget, part>>
           ELSE Commit(n, Call(n, "timer", tmr[i].t, pref), net, DropAt(tmr, i))

MutualDown == \A x \in Nodes : \A y \in Nodes :
                 Grp(x) # Grp(y) => \E i \in DOMAIN st[x].mem : Addr(st[x].mem[i].id) = y + 1 /\ st[x].mem[i].st = "D"

Quiet == net = <<>> /\ \A i \in DOMAIN tmr : tmr[i].due > now \/ Mode = "c18"

Tick == /\ Quiet /\ now < Horizon /\ Mode # "c18"
        /\ ~(Mode = "c05" /\ part = "cut" /\ MutualDown /\ g.tFault < 0)      \* MarkMutual is urgent
        /\ ~(Mode = "c05" /\ part = "cut" /\ g.tFault >= 0 /\ now >= g.tFault + 4)  \* no point in waiting unhealed
        /\ now' = now + 1
        /\ UNCHANGED <<st, net, tmr, status, g, bad, budget, part>>

Everyone == \A x \in Nodes : \A y \in Nodes \ {x} : IdOf(y) \in ActiveIds(st[x].mem)

\* faults
Crash == /\ Mode = "c03" /\ budget > 0 /\ Everyone
         /\ \E f \in Nodes :
              /\ status[f] = "up"
              /\ status' = [status EXCEPT ![f] = "crashed"]
              /\ g' = C03Fault(g, [node |-> f, id |-> st[f].id, now |-> now], FALSE)
              /\ budget' = budget - 1
              /\ UNCHANGED <<st, net, tmr, now, bad, part>>

Leave == /\ Mode = "c03" /\ budget > 0 /\ Everyone
         /\ \E f \in Nodes : \E pref \in Prefs :
              /\ status[f] = "up"
              /\ LET c == Call(f, "leave", <<>>, pref)
                     g0 == C03Fault(g, [node |-> f, id |-> st[f].id, now |-> now], TRUE)
                     g1 == GCall(g0, c.e)
                 IN /\ st' = [st EXCEPT ![f] = c.st]
                    /\ net' = net \o c.net /\ tmr' = tmr \o c.tmr
                    /\ g' = g1
                    /\ bad' = bad \cup C03Call(g0, g1, c.e)
              /\ status' = [status EXCEPT ![f] = "left"]
              /\ budget' = budget - 1
              /\ UNCHANGED <<now, part>>

Drop == /\ Mode = "c04" /\ budget > 0 /\ Everyone
        /\ \E i \in DOMAIN net :
             /\ net' = DropAt(net, i)
             /\ g' = [g EXCEPT !.tDrop = now]
             /\ budget' = 0
             /\ UNCHANGED <<st, tmr, now, status, bad, part>>

\* C05: partition once the cluster is formed; heal at any moment after both sides declared each other Down
Cut == /\ Mode = "c05" /\ part = "none" /\ Everyone /\ Quiet
       /\ part' = "cut"
       /\ UNCHANGED <<st, net, tmr, now, status, g, bad, budget>>
\* heal instants are swept over one announce-to-down period after mutual Down was reached
MarkMutual == /\ Mode = "c05" /\ part = "cut" /\ MutualDown /\ g.tFault < 0
              /\ g' = [g EXCEPT !.tFault = now]
              /\ UNCHANGED <<st, net, tmr, now, status, bad, budget, part>>
Heal == /\ Mode = "c05" /\ part = "cut" /\ MutualDown /\ Quiet /\ g.tFault >= 0 /\ now <= g.tFault + 4
        /\ part' = "healed"
        /\ g' = [g EXCEPT !.tHeal = now, !.toldDown = {}]
        /\ UNCHANGED <<st, net, tmr, now, status, bad, budget>>

Next == (Deliver \/ Fire \/ Tick \/ Crash \/ Leave \/ Drop \/ Cut \/ MarkMutual \/ Heal) /\ formedAt' = (IF formedAt < 0 /\ Everyone' THEN now' ELSE formedAt)

Spec == Init /\ [][Next]_vars

-----------------------------------------------------------------------------
(***************************************************************************)
(* C18: timers held.  Initial states: every combination of what each       *)
(* instance knows about each other one (absent / Alive / Suspect / Down /  *)
(* an older generation), whether it is connected or defunct, and a         *)
(* suspicion (about the peer or about itself) waiting in its backlog; one  *)
(* datagram of any kind is then injected.  Deliver is the only action, so  *)
(* the exchange terminates iff the behaviour graph has no cycle: checked   *)
(* as the liveness property Terminates under weak fairness of Deliver,     *)
(* with no state constraint.                                               *)
(***************************************************************************)
Knows == {"absent", "A", "S", "D", "older"}

MemFor(k, other) ==
    CASE k = "absent" -> <<>>
      [] k = "older" -> <<Mem(<<Addr(other), 0>>, 0, "A")>>
      [] OTHER -> <<Mem(other, 0, k)>>

Node18(n, know, undead, susp) ==
    LET me == <<n + 1, 1>>
        others == [m \in Nodes \ {n} |-> <<m + 1, 1>>]
        mem == LET RECURSIVE Build(_)
                   Build(S) == IF S = {} THEN <<>>
                               ELSE LET m == CHOOSE x \in S : TRUE IN MemFor(know[m], others[m]) \o Build(S \ {m})
               IN Build(Nodes \ {n})
        na == CountActive(mem)
        base == NodeInit(me, Pol, "fixed", "samekey", "all", Cfg)
        upd == IF susp = "none" THEN <<>>
               ELSE IF susp = "self" THEN <<UpdEntry("fixed", Mem(me, 0, "S"), MaxTx)>>
               ELSE <<UpdEntry("fixed", Mem(others[CHOOSE m \in Nodes \ {n} : TRUE], 0, "S"), MaxTx)>>
    IN [base EXCEPT !.mem = mem, !.nactive = na, !.upd = upd,
                    !.conn = IF undead THEN "U" ELSE IF na > 0 THEN "C" ELSE "D"]

Kinds18 == {Msg("Ping", 1, NoId), Msg("Ack", 0, NoId), Msg("PingReq", 1, <<NN, 1>>), Msg("IndirectPing", 1, <<NN, 1>>),
            Msg("IndirectAck", 1, <<NN, 1>>), Msg("ForwardedAck", 0, <<NN, 1>>), Msg("Announce", 0, NoId),
            Msg("Feed", 0, NoId), Msg("Gossip", 0, NoId), Msg("Broadcast", 0, NoId), Msg("TurnUndead", 0, NoId)}

Init18 ==
    /\ \E know \in [Nodes -> [Nodes -> Knows]], undead \in [Nodes -> BOOLEAN], susp \in [Nodes -> {"none", "self", "other"}] :
          st = [n \in Nodes |-> Node18(n, know[n], undead[n], susp[n])]
    /\ \E m \in Kinds18, withUpd \in BOOLEAN, srcGen \in {0, 1} :
          LET h == Hdr(<<1, srcGen>>, 0, <<2, 1>>, m)
              mem == IF withUpd /\ NeedsPiggyback(m.k) THEN <<Mem(<<2, 1>>, 0, "S")>> ELSE <<>>
              hs == HSize("fixed", h)
          IN net = <<[to |-> 1, from |-> 0,
                      d |-> ObsDgram("fixed", Dgram(h, hs, IF mem = <<>> THEN -1 ELSE 1, mem, <<>>,
                                                    hs + (IF mem = <<>> THEN 0 ELSE 8)))]>>
    /\ tmr = <<>> /\ now = 0
    /\ status = [n \in Nodes |-> "up"]
    /\ g = [GInit(Hdr0) EXCEPT !.ids = [n \in Nodes |-> <<n + 1, 1>>], !.status = [n \in Nodes |-> "up"],
                               !.view = [n \in Nodes |-> <<>>], !.told = [n \in Nodes |-> {}]]
    /\ bad = {} /\ budget = 0 /\ formedAt = -1 /\ part = "none"

Spec18 == Init18 /\ [][Deliver /\ UNCHANGED formedAt]_vars /\ WF_vars(Deliver /\ UNCHANGED formedAt)
Terminates == <>(net = <<>>)

MonitorsQuiet == bad = {}

\* C02: discovery - everyone lists exactly everyone else by the bound
Views == [n \in Nodes |-> [members |-> LET M == SelectSeq(st[n].mem, IsActive) IN [i \in DOMAIN M |-> M[i].id],
                           state |-> st[n].mem, pending |-> [i \in DOMAIN st[n].upd |-> [id |-> st[n].upd[i].m.id]]]]
EndEvent == [now |-> now, views |-> [i \in 1..NN |-> Views[i - 1]], inflight |-> Len(net)]

C02Discovery == (Mode = "c02" /\ Quiet) => C02End(g, EndEvent) \subseteq {"discovery-incomplete:epidemic-extinct-before-reaching-everyone"}
C02DiscoveryStrict == (Mode = "c02" /\ Quiet) => C02End(g, EndEvent) = {}
C03Complete == (Mode = "c03" /\ Quiet) => C03End(g, EndEvent) = {}
C04Recovers == (Mode = "c04" /\ Quiet) => C04End(g, EndEvent) = {}
C05Converges == (Mode = "c05" /\ Quiet) => C05End([g EXCEPT !.ids = [n \in Nodes |-> st[n].id]], EndEvent) = {}

View == <<st, net, tmr, now, status, bad, budget, part, g.tHeal, g.toldDown, g.rejoined, g.activeAfter, g.tFault, g.tDrop, g.listed, g.downAt, g.failed, g.leaver>>
=============================================================================
