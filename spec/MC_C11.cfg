SPECIFICATION Spec
CONSTANTS
  IncMax = 3
  TokenMod = 4
  ProbeMod = 4
  Fixes = {"654ac52", "3f5c312", "66b62cc", "7418747", "f6702a7", "73fde95", "ea3a2f4", "6ca130a", "a23716c"}
INVARIANTS Iff DownFinal
CHECK_DEADLOCK FALSE
