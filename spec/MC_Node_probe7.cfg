SPECIFICATION Spec
CONSTANTS
  IncMax = 3
  TokenMod = 4
  Fixes = {"654ac52", "3f5c312", "66b62cc", "7418747", "f6702a7", "73fde95", "ea3a2f4", "6ca130a", "a23716c"}
  ProbeMod = 4
  Sim = FALSE
  Forge = FALSE
  MaxSteps = 7
  PeerAddrs = {2, 3}
  Gens = {0, 1}
  Pols = {"next"}
  MonSetDefault = {"C07", "C08", "C09", "C10", "C11", "C12", "C13", "C19"}
  Scope = "probe"
INVARIANTS MonitorsQuiet RejectedLeavesNoTrace NoPanic
VIEW View
CHECK_DEADLOCK FALSE
