----------------------------- MODULE Trace_Node -----------------------------
(***************************************************************************)
(* Trace validation of harness traces (any number of nodes, any driver).   *)
(*   - one-step conformance of every recorded call against FocaNode!Step   *)
(*     (unless NOCONF=1)                                                   *)
(*   - the property monitors selected by MON_Cxx=1, evaluated at every     *)
(*     step on what the code really did                                    *)
(* Environment: TRACE=<file.ndjson>                                        *)
(***************************************************************************)
EXTENDS TraceBase, MonC01, MonC14, MonC17, MonHits

On(name) == name \in DOMAIN IOEnv /\ IOEnv[name] = "1"

VARIABLES l,        \* next line of the trace
          nodes,    \* node index -> [st, pub, hook] as last observed
          env,      \* run parameters from the last reset event
          mon,      \* node index -> monitor states
          conf,     \* conformance bookkeeping [calls, ndiv, divs]
          viol,     \* monitor violations [n, list]
          gm,       \* cross-instance monitor state (C17 twin lanes)
          hits      \* vacuity guard: tag -> number of steps that exercised it (MonHits)

vars == <<l, nodes, env, mon, conf, viol, gm, hits>>

MaxList == 12

EnvInit == [forge |-> FALSE, junk |-> FALSE, ordered |-> FALSE, dbg |-> TRUE, run |-> 0, driver |-> ""]

Init == /\ l = 1 /\ nodes = <<>> /\ env = EnvInit /\ mon = <<>>
        /\ conf = [calls |-> 0, ndiv |-> 0, divs |-> <<>>]
        /\ viol = [n |-> 0, list |-> <<>>]
        /\ gm = C17Init
        /\ hits = <<>>

MonInit == [C01 |-> C01Init, C07 |-> C07Init, C11 |-> C11Init, C12 |-> C12Init, C08 |-> C08Init, C09 |-> C09Init, C10 |-> C10Init, C13 |-> C13Init, C14 |-> C14Init, C15 |-> C15Init, C16 |-> C16Init, C19 |-> C19Init]

ObsOf(e, prev) ==
    [node |-> e.node, call |-> e.call, args |-> e.args, res |-> e.res, out |-> e.out,
     hlog |-> e.hlog, now |-> e.now,
     pre |-> prev.pub, post |-> e.pub, hpre |-> prev.hook, hpost |-> e.hook, env |-> env,
     static |-> [pol |-> prev.st.pol, codec |-> prev.st.codec, hrel |-> prev.st.hrel, hpred |-> prev.st.hpred]]
    @@ (IF HasField(e, "acc") THEN [acc |-> e.acc] ELSE <<>>)
    @@ (IF HasField(e, "tag") THEN [tag |-> e.tag] ELSE <<>>)

MonStep(m, o) ==
    [C01 |-> IF On("MON_C01") THEN C01Step(m.C01, o) ELSE m.C01,
     C07 |-> IF On("MON_C07") THEN C07Step(m.C07, o) ELSE m.C07,
     C11 |-> IF On("MON_C11") THEN C11Step(m.C11, o) ELSE m.C11,
     C08 |-> IF On("MON_C08") THEN C08Step(m.C08, o) ELSE m.C08,
     C09 |-> IF On("MON_C09") THEN C09Step(m.C09, o) ELSE m.C09,
     C10 |-> IF On("MON_C10") THEN C10Step(m.C10, o) ELSE m.C10,
     C12 |-> IF On("MON_C12") THEN C12Step(m.C12, o) ELSE m.C12,
     C13 |-> IF On("MON_C13") THEN C13Step(m.C13, o) ELSE m.C13,
     C14 |-> IF On("MON_C14") THEN C14Step(m.C14, o) ELSE m.C14,
     C15 |-> IF On("MON_C15") THEN C15Step(m.C15, o) ELSE m.C15,
     C16 |-> IF On("MON_C16") THEN C16Step(m.C16, o) ELSE m.C16,
     C19 |-> IF On("MON_C19") THEN C19Step(m.C19, o) ELSE m.C19]

MonViols(m) == [p \in DOMAIN m |-> m[p].v]

NewViols(m, line, e) ==
    LET ps == {p \in DOMAIN m : m[p].v # {}} IN
    IF ps = {} THEN <<>>
    ELSE <<[line |-> line, run |-> env.run, call |-> e.call,
            v |-> [p \in ps |-> m[p].v]]>>

Next ==
    /\ l <= Len(Rec)
    /\ l' = l + 1
    /\ LET e == Rec[l] IN
       CASE e.ev = "reset" ->
              /\ nodes' = <<>> /\ mon' = <<>>
              /\ env' = [f \in DOMAIN EnvInit |-> IF HasField(e, f) THEN e[f] ELSE EnvInit[f]]
              /\ gm' = C17Init
              /\ UNCHANGED <<conf, viol, hits>>
         [] e.ev = "new" ->
              /\ nodes' = (e.node :> [st |-> AbsState(e, StaticOf(e)), pub |-> e.pub, hook |-> e.hook]) @@ nodes
              /\ mon' = (e.node :> MonInit) @@ mon
              /\ UNCHANGED <<env, conf, viol, gm, hits>>
         [] e.ev = "call" ->
              LET prev == nodes[e.node]
                  d == IF On("NOCONF") THEN {} ELSE Divergence(prev.st, e, env.dbg)
                  panic == e.res = "Panic"
                  m1 == IF panic THEN mon[e.node] ELSE MonStep(mon[e.node], ObsOf(e, prev))
                  g1 == IF panic \/ ~On("MON_C17") THEN gm ELSE C17Step(gm, ObsOf(e, prev))
                  nv == IF panic
                        THEN (IF On("MON_C06")
                              THEN <<[line |-> l, run |-> env.run, call |-> e.call, v |-> ("C06" :> {"panic"}),
                                      extra |-> [msg |-> IF HasField(e, "panic") THEN e.panic ELSE ""]]>>
                              ELSE <<>>)
                        ELSE NewViols(m1, l, e)
                             \o (IF g1.v = {} THEN <<>>
                                 ELSE <<[line |-> l, run |-> env.run, call |-> e.call, v |-> ("C17" :> g1.v)]>>)
              IN /\ conf' = [calls |-> conf.calls + 1,
                             ndiv |-> IF d = {} THEN conf.ndiv ELSE conf.ndiv + 1,
                             divs |-> IF d = {} \/ Len(conf.divs) >= MaxList THEN conf.divs
                                      ELSE Append(conf.divs, [line |-> l, run |-> env.run, call |-> e.call, fields |-> d])]
                 /\ viol' = [n |-> viol.n + Len(nv),
                             list |-> IF Len(viol.list) >= MaxList THEN viol.list ELSE viol.list \o nv]
                 /\ nodes' = IF panic THEN nodes
                             ELSE (e.node :> [st |-> AbsState(e, prev.st), pub |-> e.pub, hook |-> e.hook]) @@ nodes
                 /\ mon' = (e.node :> m1) @@ mon
                 /\ gm' = g1
                 /\ hits' = IF panic \/ On("NOHITS") THEN hits
                            ELSE LET H == Hits(mon[e.node], ObsOf(e, prev)) IN
                                 [t \in DOMAIN hits \cup H |->
                                    (IF t \in DOMAIN hits THEN hits[t] ELSE 0) + (IF t \in H THEN 1 ELSE 0)]
                 /\ UNCHANGED env
         [] e.ev = "group" ->
              \* a driver-level comparison across several instances / runs
              LET gv == IF e.prop = "C01" /\ On("MON_C01") THEN C01Group(e)
                        ELSE IF e.prop = "C06" /\ On("MON_C06")
                        THEN (IF e.panics = 0 /\ e.min_maxtx >= 1 /\ e.max_maxtx <= 255 /\ e.min_s2d_ms > 0 THEN {}
                              ELSE {"Config::new_lan/new_wan-panicked-or-produced-an-illegal-config"})
                        ELSE IF e.prop = "C13"
                        THEN \* Timer's Ord (runtime.rs) is the order TimerSeq the specification uses in MC_Cluster
                             (IF \A i, j \in DOMAIN e.order : i < j => TimerSeq(e.order[i]) < TimerSeq(e.order[j]) THEN {}
                              ELSE {"Timer-ordering-differs-from-the-specification's-TimerSeq"})
                        ELSE {}
                  nv == IF gv = {} THEN <<>>
                        ELSE <<[line |-> l, run |-> env.run, call |-> "group:" \o e.kind, v |-> (e.prop :> gv)]>>
              IN /\ viol' = [n |-> viol.n + Len(nv),
                             list |-> IF Len(viol.list) >= MaxList THEN viol.list ELSE viol.list \o nv]
                 /\ UNCHANGED <<nodes, env, mon, conf, gm, hits>>
         [] OTHER -> UNCHANGED <<nodes, env, mon, conf, viol, gm, hits>>

Spec == Init /\ [][Next]_vars

AtEnd == l = Len(Rec) + 1
Report == AtEnd => PrintT(<<"RESULT", ToJson([lines |-> Len(Rec), conf |-> conf, viol |-> viol, hits |-> hits])>>)
Done == PrintT(<<"CONSUMED", TLCGet("stats").diameter - 1, Len(Rec)>>)
=============================================================================
