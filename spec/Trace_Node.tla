----------------------------- MODULE Trace_Node -----------------------------
(***************************************************************************)
(* Trace validation of harness traces (any number of nodes, any driver):   *)
(* one-step conformance of every recorded call against FocaNode!Step.      *)
(* TRACE=<file.ndjson> in the environment.                                 *)
(***************************************************************************)
EXTENDS TraceBase

VARIABLES l,        \* next line of the trace
          nodes,    \* node index -> specification state (observed post state)
          dbg,      \* debug assertions compiled in (from the reset event)
          ndiv,     \* number of diverging events so far
          divs,     \* the first few divergences, [l, call, fields]
          ncalls    \* number of call events validated

vars == <<l, nodes, dbg, ndiv, divs, ncalls>>

MaxDivs == 8

Init == /\ l = 1 /\ nodes = <<>> /\ dbg = TRUE /\ ndiv = 0 /\ divs = <<>> /\ ncalls = 0

Next ==
    /\ l <= Len(Rec)
    /\ l' = l + 1
    /\ LET e == Rec[l] IN
       CASE e.ev = "reset" ->
              /\ nodes' = <<>>
              /\ dbg' = (IF HasField(e, "dbg") THEN e.dbg ELSE TRUE)
              /\ UNCHANGED <<ndiv, divs, ncalls>>
         [] e.ev = "new" ->
              /\ nodes' = (e.node :> AbsState(e, StaticOf(e))) @@ nodes
              /\ UNCHANGED <<dbg, ndiv, divs, ncalls>>
         [] e.ev = "call" ->
              LET pre == nodes[e.node]
                  d == Divergence(pre, e, dbg)
              IN /\ ncalls' = ncalls + 1
                 /\ ndiv' = IF d = {} THEN ndiv ELSE ndiv + 1
                 /\ divs' = IF d = {} \/ Len(divs) >= MaxDivs THEN divs
                            ELSE Append(divs, [line |-> l, call |-> e.call, fields |-> d])
                 /\ nodes' = IF e.res = "Panic" THEN nodes
                             ELSE (e.node :> AbsState(e, pre)) @@ nodes
                 /\ UNCHANGED dbg
         [] OTHER -> UNCHANGED <<nodes, dbg, ndiv, divs, ncalls>>

Spec == Init /\ [][Next]_vars

\* printed once at the end; the runner parses these lines
Done ==
    /\ PrintT(<<"TRACE-RESULT", [lines |-> Len(Rec), consumed |-> TLCGet("stats").diameter - 1]>>)
    /\ TRUE

AtEnd == l = Len(Rec) + 1
Report == AtEnd => PrintT(<<"CONFORMANCE", ToJson([calls |-> ncalls, ndiv |-> ndiv, divs |-> divs])>>)
=============================================================================
