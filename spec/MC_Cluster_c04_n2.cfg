SPECIFICATION Spec
CONSTANTS
  IncMax = 3
  TokenMod = 4
  ProbeMod = 4
  NN = 2
  Horizon = 40
  Mode = "c04"
  Pol = "none"
  NotifyDown = TRUE
  MaxTx = 2
  PGossip = FALSE
  PAnnDown = FALSE
  PAnnounce = FALSE
INVARIANTS MonitorsQuiet C04Recovers
VIEW View
CHECK_DEADLOCK FALSE
