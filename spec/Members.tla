------------------------------ MODULE Members ------------------------------
(***************************************************************************)
(* The membership table (src/member.rs): a sequence of member records, at  *)
(* most one per address, with a round-robin cursor and a cached count of   *)
(* active records.  Operators transcribe the Rust functions one to one.    *)
(***************************************************************************)
EXTENDS FocaTypes

\* Member::can_change (member.rs:113) - SWIM 4.2 order of preference
CanChange(m, inc, st) ==
    CASE m.st = "A" -> \/ (st = "A" /\ inc > m.inc)
                       \/ (st = "S" /\ inc >= m.inc)
                       \/ st = "D"
      [] m.st = "S" -> \/ (st \in {"A", "S"} /\ inc > m.inc)
                       \/ st = "D"
      [] m.st = "D" -> FALSE

\* index of the record holding this address, 0 when unknown
FindAddr(mem, a) ==
    IF \E i \in DOMAIN mem : Addr(mem[i].id) = a
    THEN CHOOSE i \in DOMAIN mem : Addr(mem[i].id) = a /\ \A j \in 1..(i - 1) : Addr(mem[j].id) # a
    ELSE 0

FindId(mem, id) ==
    IF \E i \in DOMAIN mem : mem[i].id = id
    THEN CHOOSE i \in DOMAIN mem : mem[i].id = id /\ \A j \in 1..(i - 1) : mem[j].id # id
    ELSE 0

ActiveIds(mem) == {mem[i].id : i \in {j \in DOMAIN mem : IsActive(mem[j])}}
ActiveRecs(mem) == {mem[i] : i \in {j \in DOMAIN mem : IsActive(mem[j])}}
DownRecs(mem) == {mem[i] : i \in {j \in DOMAIN mem : ~IsActive(mem[j])}}
IdIsActive(mem, id) == \E i \in DOMAIN mem : mem[i].id = id /\ IsActive(mem[i])
CountActive(mem) == Cardinality({i \in DOMAIN mem : IsActive(mem[i])})

Summary(mem, nactive, found, activeNow, ok, changed, conflict, old, inserted) ==
    [mem |-> mem, nactive |-> nactive, found |-> found, activeNow |-> activeNow, ok |-> ok,
     changed |-> changed, conflict |-> conflict, old |-> old, inserted |-> inserted]

(***************************************************************************)
(* Members::apply_existing_if (member.rs:285).  Cond is evaluated on the   *)
(* known record.  found = FALSE mirrors the `None` result.                 *)
(***************************************************************************)
ApplyExistingIf(mem, nactive, u, Cond(_)) ==
    LET i == FindAddr(mem, Addr(u.id)) IN
    IF i = 0 THEN Summary(mem, nactive, FALSE, FALSE, FALSE, FALSE, "No", NoId, FALSE)
    ELSE
      LET known == mem[i]
          idConflict == known.id # u.id
      IN
      IF idConflict /\ Wins(known.id, u.id)
      THEN Summary(mem, nactive, TRUE, IsActive(known), FALSE, FALSE, "Lost", NoId, FALSE)
      ELSE IF ~Cond(known)
      THEN Summary(mem, nactive, TRUE, IsActive(known), FALSE, FALSE,
                   IF idConflict THEN "Failed" ELSE "No", NoId, FALSE)
      ELSE
        LET wasActive == IsActive(known)
            changeOk == CanChange(known, u.inc, u.st)
            new == IF idConflict THEN u
                   ELSE IF changeOk THEN Mem(known.id, u.inc, u.st) ELSE known
            ok == IF idConflict THEN TRUE ELSE changeOk
            nowActive == IsActive(new)
            changed == nowActive # wasActive
            na == IF ~changed THEN nactive
                  ELSE IF nowActive THEN nactive + 1
                  ELSE IF nactive > 0 THEN nactive - 1 ELSE 0
        IN Summary([mem EXCEPT ![i] = new], na, TRUE, nowActive, ok, changed,
                   IF idConflict THEN "Replaced" ELSE "No",
                   IF idConflict THEN known.id ELSE NoId, FALSE)

Always(m) == TRUE

(***************************************************************************)
(* Members::apply (member.rs:358).  An unknown address is registered at    *)
(* the end of the sequence; the random swap position is accounted for      *)
(* separately (RoundRobin!InsertOk / UndoInserts).                         *)
(***************************************************************************)
Apply(mem, nactive, u) ==
    LET r == ApplyExistingIf(mem, nactive, u, Always) IN
    IF r.found THEN r
    ELSE Summary(Append(mem, u), IF IsActive(u) THEN nactive + 1 ELSE nactive,
                 FALSE, IsActive(u), TRUE, IsActive(u), "No", NoId, TRUE)

\* swap_remove
SwapRemove(s, i) ==
    LET n == Len(s) IN
    IF i = n THEN SubSeq(s, 1, n - 1)
    ELSE [j \in 1..(n - 1) |-> IF j = i THEN s[n] ELSE s[j]]

\* Members::remove_if_down (member.rs:266)
RemoveIfDown(mem, id) ==
    LET S == {i \in DOMAIN mem : mem[i].id = id /\ mem[i].st = "D"} IN
    IF S = {} THEN mem
    ELSE SwapRemove(mem, CHOOSE i \in S : \A j \in S : i <= j)

(***************************************************************************)
(* Insert positions.  `apply` pushes the new record and swaps it with a    *)
(* uniformly chosen position (possibly its own).  Given the ids inserted   *)
(* during one call, in order, the swaps can be undone deterministically    *)
(* from the back: the last inserted id sits at some position p and what    *)
(* was at p before the swap sits at the end.                               *)
(***************************************************************************)
Swap(s, i, j) == [s EXCEPT ![i] = s[j], ![j] = s[i]]

RECURSIVE UndoInserts(_, _)
UndoInserts(ids, inserted) ==
    IF inserted = <<>> THEN ids
    ELSE LET x == inserted[Len(inserted)]
             n == Len(ids)
         IN IF ~(\E p \in 1..n : ids[p] = x) THEN <<"bad">>
            ELSE LET p == CHOOSE q \in 1..n : ids[q] = x
                     sw == Swap(ids, p, n)
                 IN UndoInserts(SubSeq(sw, 1, n - 1), SubSeq(inserted, 1, Len(inserted) - 1))

IdsOf(mem) == [i \in DOMAIN mem |-> mem[i].id]

(***************************************************************************)
(* Members::next (member.rs:171), given the order after the (possible)     *)
(* shuffle.  Result: [mem, cursor, pos] with pos = 0 for None.             *)
(***************************************************************************)
IsPermutation(s, t) == Len(s) = Len(t) /\ BagOf(s) = BagOf(t)

NextMember(mem, cursor, shuffled) ==
    LET n == Len(mem)
        needShuffle == cursor < 0 \/ cursor >= n      \* cursor = -1 encodes usize::MAX
        m1 == IF needShuffle THEN shuffled ELSE mem
        c1 == IF needShuffle THEN 0 ELSE cursor
        After == {i \in 1..n : i > c1 /\ IsActive(m1[i])}
        Before == {i \in 1..n : i <= c1 /\ IsActive(m1[i])}
        pos == IF After # {} THEN CHOOSE i \in After : \A j \in After : i <= j
               ELSE IF Before # {} THEN CHOOSE i \in Before : \A j \in Before : i <= j
               ELSE 0
        c2 == IF pos = 0 THEN c1
              ELSE IF pos - 1 < c1 THEN -1   \* wrapped: 0-based pos < cursor
              ELSE pos                       \* 0-based pos + 1
    IN [mem |-> m1, cursor |-> c2, pos |-> pos,
        shuffleOk |-> (~needShuffle \/ IsPermutation(shuffled, mem))]
=============================================================================
