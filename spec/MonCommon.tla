----------------------------- MODULE MonCommon -----------------------------
(***************************************************************************)
(* Observations.  A monitor never looks at the specification state: it     *)
(* reads one observation per public call,                                  *)
(*   o == [node, call, args, res, out, hlog, now, tag,                     *)
(*         pre, post  : public view  [id, members, state, num, ubl, cbl]   *)
(*         hpre, hpost: hook view    [inc, tok, conn, probe, order, cursor,*)
(*                                    nactive, upd, cus, bufcap, cfg]      *)
(*         env        : run parameters [forge, junk, ordered, dbg, pol]]   *)
(* which is either a recorded event of the real code (Trace_* specs) or    *)
(* computed from FocaNode!Step (model checking).  The effect list `out`    *)
(* is always processed in order, element by element.                       *)
(***************************************************************************)
EXTENDS FocaNode

Notifs(out) == LET S == SelectSeq(out, LAMBDA x : x.k = "notify") IN [i \in DOMAIN S |-> S[i].n]
OSends(out) == SelectSeq(out, LAMBDA x : x.k = "send")
OTimers(out) == SelectSeq(out, LAMBDA x : x.k = "timer")
HasNotif(out, k) == \E i \in DOMAIN out : out[i].k = "notify" /\ out[i].n.k = k

\* classification of a received datagram from public knowledge only
Rejection(o) == DataRejection([id |-> o.pre.id, cfg |-> o.hpre.cfg], o.args)
DataProcessed(o) == o.call = "data" /\ Rejection(o) = ""

\* every member record offered to the instance by this call
UpdatesIn(o) ==
    IF o.call = "data" THEN (IF DataProcessed(o) THEN o.args.mem ELSE <<>>)
    ELSE IF o.call = "apply_many" THEN o.args.updates
    ELSE <<>>

RowOf(state, a) ==
    LET S == {i \in DOMAIN state : Addr(state[i].id) = a} IN
    IF S = {} THEN <<>> ELSE <<state[CHOOSE i \in S : TRUE]>>

AddrsOf(state) == {Addr(state[i].id) : i \in DOMAIN state}

V(cond, name) == IF cond THEN {} ELSE {name}

\* public / hook views of a specification state (used when model checking)
PubOf(st) ==
    [id |-> st.id,
     members |-> SelectSeq(st.mem, IsActive),
     state |-> st.mem,
     num |-> st.nactive,
     ubl |-> Len(st.upd),
     cbl |-> Len(st.cus)]

HookOf(st) ==
    [inc |-> st.inc, tok |-> st.tok, conn |-> st.conn, probe |-> st.probe, order |-> st.mem,
     cursor |-> st.cursor, nactive |-> st.nactive, upd |-> st.upd, cus |-> st.cus,
     bufcap |-> st.bufcap, cfg |-> st.cfg, draws |-> 0]

\* a datagram produced by the specification, in the shape the parser reports
ObsDgram(codec, d) ==
    [h |-> d.h, hs |-> d.hs, len |-> d.len, tally |-> d.tally, mem |-> d.mem, items |-> d.items,
     hok |-> TRUE, rem |-> d.len - d.hs, memfail |-> FALSE, tailok |-> TRUE, trail |-> 0,
     msz |-> [i \in DOMAIN d.mem |-> MSize(codec, d.mem[i])]]

ObsOut(codec, out) ==
    [i \in DOMAIN out |-> IF out[i].k = "send"
                          THEN [k |-> "send", dst |-> out[i].dst, d |-> ObsDgram(codec, out[i].d)]
                          ELSE out[i]]
=============================================================================
