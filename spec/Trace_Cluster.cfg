SPECIFICATION Spec
CONSTANTS
  IncMax = 65535
  TokenMod = 256
  ProbeMod = 256
INVARIANT Report
POSTCONDITION Done
CHECK_DEADLOCK FALSE
