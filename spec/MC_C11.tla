------------------------------- MODULE MC_C11 -------------------------------
(***************************************************************************)
(* C11 on the specification as an exhaustive CASE TABLE.                   *)
(* Initial states: an instance holding one or two member records, the one  *)
(* at the timer's address being absent / Alive / Suspect / Down, at an     *)
(* incarnation below / equal / above the timer's, of an older / the same / *)
(* a newer generation; connected or idle or defunct; notify_down_members   *)
(* on or off; the timer's token current or stale.  One step: the suspicion *)
(* timeout fires.  The statement's "if and only if" is checked on the      *)
(* result of FocaNode!HandleTimer directly (no monitor in between), then   *)
(* the forget-timer and a late refutation are applied to every outcome.    *)
(***************************************************************************)
EXTENDS MonCommon

VARIABLES st, t, phase
vars == <<st, t, phase>>

Target == <<2, 1>>          \* the identity the timer is about
TInc == 1                   \* the incarnation the suspicion was raised at
Other == Mem(<<3, 0>>, 0, "A")

Cfg(nd) == [period |-> 3, rtt |-> 1, fanout |-> 2, maxtx |-> 2, s2d |-> 5, rda |-> 9, maxpkt |-> 1400,
            notifydown |-> nd, pa |-> <<>>, pad |-> <<>>, pg |-> <<>>]

Rows == {<<>>} \cup {<<Mem(<<2, g>>, i, s)>> : g \in {0, 1, 2}, i \in {0, 1, 2}, s \in States}

Init ==
    /\ \E row \in Rows, withOther \in BOOLEAN, nd \in BOOLEAN, conn \in {"C", "D", "U"}, tok \in {0, 1} :
         LET mem == row \o (IF withOther THEN <<Other>> ELSE <<>>)
             base == NodeInit(<<1, 0>>, "none", "fixed", "samekey", "all", Cfg(nd))
         IN /\ (conn = "C" => CountActive(mem) > 0)
            /\ st = [base EXCEPT !.mem = mem, !.nactive = CountActive(mem), !.conn = conn, !.tok = 1]
            /\ t = TmSuspect(Target, TInc, tok)
    /\ phase = "fire"

Tape == [EmptyTape EXCEPT !.auto = TRUE, !.pref = <<>>]
R == HandleTimer(st, t, Tape, <<>>, TRUE)

Next == /\ phase = "fire" /\ phase' = "done" /\ st' = R.st /\ t' = t
Spec == Init /\ [][Next]_vars

Row == RowOf(st.mem, Addr(Target))
Eligible == /\ t.tok = st.tok
            /\ Row # <<>> /\ Row[1].id = Target /\ Row[1].inc = TInc /\ Row[1].st # "D"

\* the statement, evaluated in every initial state on the step's result
Iff ==
    phase = "fire" =>
      LET r == R
          row2 == RowOf(r.st.mem, Addr(Target))
          notes == Notifs(r.out)
          sends == OSends(r.out)
          timers == OTimers(r.out)
      IN IF Eligible
         THEN /\ row2 = <<Mem(Target, TInc, "D")>>
              /\ \E i \in DOMAIN notes : notes[i] = Note("MemberDown", Target, NoId)
              /\ \E i \in DOMAIN timers : timers[i].t = TmRemoveDown(Target) /\ timers[i].after = st.cfg.rda
              /\ \E i \in DOMAIN r.st.upd : r.st.upd[i].m = Mem(Target, TInc, "D") /\ r.st.upd[i].tx = st.cfg.maxtx
              /\ (st.cfg.notifydown <=> \E i \in DOMAIN sends : sends[i].dst = Target /\ sends[i].d.h.msg.k = "TurnUndead")
              /\ Len(sends) = (IF st.cfg.notifydown THEN 1 ELSE 0)
              /\ r.res = "Ok"
              \* going idle when the last active member went down
              /\ ((st.conn = "C" /\ CountActive(r.st.mem) = 0) <=> \E i \in DOMAIN notes : notes[i].k = "Idle")
         ELSE \* cancelled or stale: no effect at all (a forged current-token timeout on an idle instance with active
              \* members may still connect it - adjust_connection_state runs whenever the address is known)
              /\ r.res = "Ok"
              /\ r.st.mem = st.mem /\ r.st.upd = st.upd
              /\ OSends(r.out) = <<>>
              /\ (st.conn # "D" \/ st.nactive = 0 \/ t.tok # st.tok \/ Row = <<>> => r.out = <<>> /\ r.st = st)

\* Down is final until forgotten: afterwards, no update about that identity revives it; only its own forget-timer removes it
DownFinal ==
    phase = "done" =>
      LET row == RowOf(st.mem, Addr(Target)) IN
      (row # <<>> /\ row[1].st = "D") =>
         /\ \A i \in {0, 1, 2, IncMax}, s \in States :
               RowOf(Apply(st.mem, st.nactive, Mem(row[1].id, i, s)).mem, Addr(Target)) = row
         /\ \A g \in {0, 1, 2} : g < Gen(row[1].id) =>
               RowOf(Apply(st.mem, st.nactive, Mem(<<2, g>>, IncMax, "A")).mem, Addr(Target)) = row
         /\ RowOf(RemoveIfDown(st.mem, <<2, (Gen(row[1].id) + 1) % 3>>), Addr(Target)) = row
         /\ RowOf(RemoveIfDown(st.mem, row[1].id), Addr(Target)) = <<>>
=============================================================================
