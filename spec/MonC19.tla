------------------------------- MODULE MonC19 -------------------------------
(***************************************************************************)
(* C19  Foca never chooses its own address as a destination.               *)
(* For every datagram handed to send_to: the destination's address differs *)
(* from the address of the identity in use at that moment (the source of   *)
(* that very datagram's header), unless it is a relay towards a target     *)
(* named by a peer (PingReq -> IndirectPing, IndirectAck -> ForwardedAck)  *)
(* or the destination the user passed to announce().                       *)
(***************************************************************************)
EXTENDS MonCommon

C19Init == [v |-> {}]

IsRelay(o, s) ==
    /\ o.call = "data" /\ o.args.hok
    /\ \/ (o.args.h.msg.k = "PingReq" /\ s.d.h.msg.k = "IndirectPing" /\ s.dst = o.args.h.msg.id)
       \/ (o.args.h.msg.k = "IndirectAck" /\ s.d.h.msg.k = "ForwardedAck" /\ s.dst = o.args.h.msg.id)

C19Step(m, o) ==
    LET S == OSends(o.out) IN
    [v |-> V(\A i \in DOMAIN S :
                \/ Addr(S[i].dst) # Addr(IF S[i].d.hok THEN S[i].d.h.src ELSE o.post.id)
                \/ IsRelay(o, S[i])
                \/ (o.call = "announce" /\ S[i].dst = o.args.dst),
             "datagram-addressed-to-own-address")]
=============================================================================
