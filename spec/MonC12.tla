------------------------------- MODULE MonC12 -------------------------------
(***************************************************************************)
(* C12  A probe succeeds only on genuine evidence; indirect probing is     *)
(*      routed correctly.                                                  *)
(*                                                                         *)
(* History: the current probe round                                        *)
(*   open    - a Ping was sent by the last effective ProbeRandomMember     *)
(*   target, num - identity pinged and probe number                        *)
(*   asked   - helpers a PingReq was sent to in this round                 *)
(*   evP     - evidence POSSIBLY accepted (an Ack / ForwardedAck matching  *)
(*             the statement's criteria was handed to the instance)        *)
(*   evC     - evidence CERTAINLY accepted (as evP, and the call's public  *)
(*             outcome shows the message was processed while connected)    *)
(*   aborted - Idle / Defunct / Rejoin / identity change since the Ping    *)
(* Uses datagrams sent, timers scheduled and iter_membership_state.        *)
(* Two-sided by design: "no suspicion => evP or excused" and               *)
(* "suspicion raised => not evC".                                          *)
(***************************************************************************)
EXTENDS MonCommon

NoRound == [open |-> FALSE, target |-> NoId, num |-> 0, inc |-> 0, asked |-> {}, evP |-> FALSE, evC |-> FALSE,
            aborted |-> FALSE, staged |-> FALSE]
C12Init == [r |-> NoRound, v |-> {}]

SendsOfKind(o, k) == SelectSeq(OSends(o.out), LAMBDA s : s.d.hok /\ s.d.h.msg.k = k)

\* the message was certainly processed by the reply table
ProcessedConnected(o) ==
    /\ DataProcessed(o) /\ o.res = "Ok"
    /\ o.hpost.conn = "C" /\ o.hpre.conn = "C"
    /\ LET r == RowOf(o.post.state, Addr(o.args.h.src)) IN
          r # <<>> /\ r[1].id = o.args.h.src /\ IsActive(r[1])
    /\ ~HasNotif(o.out, "Idle") /\ ~HasNotif(o.out, "Defunct") /\ ~HasNotif(o.out, "Rejoin")

Aborting(o) ==
    \/ HasNotif(o.out, "Idle") \/ HasNotif(o.out, "Defunct") \/ HasNotif(o.out, "Rejoin")
    \/ o.post.id # o.pre.id
    \/ (o.call = "reuse" /\ o.res = "Ok")

\* --- the effective ProbeRandomMember timer: closes the round and opens the next one
ProbeTimer(m, o) ==
    LET r == m.r
        row == RowOf(o.pre.state, Addr(r.target))
        row2 == RowOf(o.post.state, Addr(r.target))
        susp == SelectSeq(OTimers(o.out), LAMBDA t : t.t.k = "Suspect")
        pings == SendsOfKind(o, "Ping")
        \* still active and not known at a higher incarnation than when the Ping was sent
        \* (a round cut short because the runtime fired the next probe timer before the
        \* indirect-probe timer - IncompleteProbeCycle - is not a completed round)
        eligible == /\ r.open /\ ~r.aborted /\ o.res = "Ok"
                    /\ row # <<>> /\ row[1].id = r.target /\ IsActive(row[1]) /\ row[1].inc = r.inc
        \* suspicion raised by this call: an Alive row turned Suspect, or a suspicion timer was scheduled
        raised == {a \in AddrsOf(o.pre.state) :
                      /\ RowOf(o.pre.state, a)[1].st = "A"
                      /\ RowOf(o.post.state, a) # <<>> /\ RowOf(o.post.state, a)[1].st = "S"}
        v == V((eligible /\ ~r.evP) =>
                   /\ row2 # <<>> /\ row2[1].id = r.target /\ row2[1].st = "S"
                   /\ Len(susp) = 1 /\ susp[1].t.id = r.target /\ susp[1].t.inc = row[1].inc,
               "round-without-evidence-ended-without-suspicion-(or-without-exactly-one-timeout)")
             \cup V((raised # {} \/ susp # <<>>) => (r.open /\ ~r.evC),
                    "suspicion-raised-although-evidence-had-been-received")
             \cup V(\A a \in raised : a = Addr(r.target), "suspicion-raised-for-a-member-that-was-not-probed")
             \cup V(\A i \in DOMAIN susp : susp[i].t.id = r.target, "suspicion-timeout-for-a-member-that-was-not-probed")
             \cup V(Len(susp) <= 1, "more-than-one-suspicion-timeout")
             \cup V(Len(pings) <= 1, "more-than-one-Ping-in-a-round")
             \cup V(\A i \in DOMAIN pings :
                       /\ pings[i].dst \in {o.post.members[j].id : j \in DOMAIN o.post.members}
                       /\ Addr(pings[i].dst) # Addr(o.post.id),
                    "Ping-sent-to-inactive-member-or-to-itself")
        nr == IF pings # <<>> /\ o.res \in {"Ok", "Err:IncompleteProbeCycle"}
              THEN [open |-> TRUE, target |-> pings[1].dst, num |-> pings[1].d.h.msg.n,
                    inc |-> LET q == RowOf(o.post.state, Addr(pings[1].dst)) IN IF q = <<>> THEN 0 ELSE q[1].inc,
                    asked |-> {},
                    evP |-> FALSE, evC |-> FALSE, aborted |-> FALSE, staged |-> FALSE]
              ELSE NoRound
    IN [r |-> nr, v |-> v]

\* --- PingReq fan-out
IndirectTimer(m, o) ==
    LET r == m.r
        reqs == SendsOfKind(o, "PingReq")
        dsts == {reqs[i].dst : i \in DOMAIN reqs}
        act == {o.pre.members[j].id : j \in DOMAIN o.pre.members}
        \* a second indirect-probe timer in the same round only happens when the runtime delivers a
        \* left-over timer of an earlier round late (C13's business): its requests are not judged here
        v == IF r.staged THEN {} ELSE
             V(reqs # <<>> =>
                  /\ r.open /\ ~r.evC
                  /\ r.target \in act
                  /\ \A i \in DOMAIN reqs :
                        /\ reqs[i].d.h.msg.id = r.target /\ reqs[i].d.h.msg.n = r.num
                        /\ reqs[i].dst \in act /\ reqs[i].dst # r.target
                        /\ reqs[i].dst \notin r.asked
                  /\ Cardinality(dsts) = Len(reqs)
                  /\ Len(reqs) + Cardinality(r.asked) <= o.hpre.cfg.fanout,
               "PingReq-sent-outside-the-rules-(target,-number,-helpers,-fan-out)")
    IN [r |-> [r EXCEPT !.asked = @ \cup dsts, !.staged = TRUE], v |-> v]

\* --- replies and relays
DataStep(m, o) ==
    LET r == m.r
        h == o.args.h
        k == h.msg.k
        pc == ProcessedConnected(o)
        self == o.pre.id
        S == OSends(o.out)
        ackP == k = "Ack" /\ r.open /\ h.src = r.target /\ h.msg.n = r.num
        fwdP == k = "ForwardedAck" /\ r.open /\ h.src \in r.asked /\ h.msg.n = r.num /\ h.msg.id # self
        OneReply(kind, dst, n, id) ==
            Cardinality({i \in DOMAIN S : S[i].d.hok /\ S[i].d.h.msg = Msg(kind, n, id) /\ S[i].dst = dst}) = 1
        v == V((pc /\ k = "Ping") => OneReply("Ack", h.src, h.msg.n, NoId), "Ping-not-answered-with-Ack-of-the-same-number")
             \cup V((pc /\ k = "PingReq" /\ h.msg.id # self) => OneReply("IndirectPing", h.msg.id, h.msg.n, h.src),
                    "PingReq-not-relayed-as-IndirectPing(origin,number)")
             \cup V((pc /\ k = "IndirectPing" /\ h.msg.id # self) => OneReply("IndirectAck", h.src, h.msg.n, h.msg.id),
                    "IndirectPing-not-answered-with-IndirectAck(target,number)")
             \cup V((pc /\ k = "IndirectAck" /\ h.msg.id # self) => OneReply("ForwardedAck", h.msg.id, h.msg.n, h.src),
                    "IndirectAck-not-relayed-as-ForwardedAck(origin,number)")
             \cup V((pc /\ k \in {"PingReq", "IndirectPing", "IndirectAck", "ForwardedAck"} /\ h.msg.id = self) =>
                       FALSE, "relay-naming-the-instance-itself-was-accepted")
             \cup V((DataProcessed(o) /\ k \in {"PingReq", "IndirectPing", "IndirectAck", "ForwardedAck"}
                     /\ h.msg.id = o.post.id /\ o.res = "Ok" /\ o.hpost.conn = "C") =>
                       \A i \in DOMAIN S : S[i].d.h.msg.k \notin {"IndirectPing", "IndirectAck", "ForwardedAck"},
                    "relay-naming-the-instance-itself-produced-a-relay")
             \cup V(SendsOfKind(o, "PingReq") = <<>>, "PingReq-sent-outside-SendIndirectProbe")
             \cup V((o.hpost.conn # "C" \/ ~DataProcessed(o)) => SendsOfKind(o, "Ack") = <<>>,
                    "Ack-sent-while-not-connected-or-for-a-rejected-datagram")
        evP == r.evP \/ (DataProcessed(o) /\ (ackP \/ fwdP))
        evC == r.evC \/ (pc /\ (ackP \/ fwdP))
    IN [r |-> [r EXCEPT !.evP = evP, !.evC = evC,
                        !.asked = IF fwdP /\ pc THEN @ \ {h.src} ELSE @], v |-> v]

C12Step(m, o) ==
    LET m1 == IF o.call = "timer" /\ o.args.k = "Probe" /\ o.args.tok = o.hpre.tok /\ o.res # "Err:NotConnected"
              THEN ProbeTimer(m, o)
              ELSE IF o.call = "timer" /\ o.args.k = "Indirect" THEN IndirectTimer(m, o)
              ELSE IF o.call = "data" /\ o.args.hok THEN DataStep(m, o)
              ELSE [r |-> m.r,
                    v |-> V(SendsOfKind(o, "PingReq") = <<>>, "PingReq-sent-outside-SendIndirectProbe")
                          \cup V(SendsOfKind(o, "Ping") = <<>>, "Ping-sent-outside-ProbeRandomMember")]
    IN [r |-> IF Aborting(o) THEN [m1.r EXCEPT !.aborted = TRUE] ELSE m1.r, v |-> m1.v]
=============================================================================
