SPECIFICATION Spec
CONSTANTS
  IncMax = 3
  TokenMod = 4
  Fixes = {"654ac52", "3f5c312", "66b62cc", "7418747", "f6702a7", "73fde95", "ea3a2f4", "6ca130a", "a23716c"}
  ProbeMod = 4
  NA = 4
  ND = 1
INVARIANTS Window NeverDown
CHECK_DEADLOCK FALSE
