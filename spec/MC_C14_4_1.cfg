SPECIFICATION Spec
CONSTANTS
  IncMax = 3
  TokenMod = 4
  ProbeMod = 4
  NA = 4
  ND = 1
INVARIANTS Window NeverDown
CHECK_DEADLOCK FALSE
