------------------------------- MODULE MonC14 -------------------------------
(***************************************************************************)
(* C14  Round-robin probing: while the member set is stable with n active  *)
(*      members, every probe round pings exactly one active member (never  *)
(*      a Down one, never the instance itself) and every window of 2n-1    *)
(*      consecutive rounds pings each active member at least once.         *)
(* History: since - active identity -> rounds since it was last pinged     *)
(*          (or since the member set last changed)                         *)
(* Observed: the destination of the Ping sent on each ProbeRandomMember.   *)
(***************************************************************************)
EXTENDS MonCommon

C14Init == [since |-> <<>>, v |-> {}]

ActiveSet(p) == {p.members[i].id : i \in DOMAIN p.members}

C14Step(m, o) ==
    LET act0 == ActiveSet(o.pre)
        act1 == ActiveSet(o.post)
        \* "while the set of known members is stable": no record added, forgotten or changing between active and Down
        Known(p) == {<<p.state[i].id, IsActive(p.state[i])>> : i \in DOMAIN p.state}
        stable == Known(o.pre) = Known(o.post) /\ DOMAIN m.since = act0
        isRound == o.call = "timer" /\ o.args.k = "Probe" /\ o.args.tok = o.hpre.tok /\ o.hpre.conn = "C"
        pings == SelectSeq(OSends(o.out), LAMBDA s : s.d.hok /\ s.d.h.msg.k = "Ping")
        n == Cardinality(act0)
    IN IF ~isRound
       THEN [since |-> IF stable THEN m.since ELSE [i \in act1 |-> 0], v |-> {}]
       ELSE
         LET dst == IF pings = <<>> THEN NoId ELSE pings[1].dst
             base == IF stable THEN m.since ELSE [i \in act0 |-> 0]
             \* only rounds that did ping count (a round whose Ping cannot be encoded pings nobody)
             since == IF pings = <<>> THEN base ELSE [i \in act0 |-> IF i = dst THEN 0 ELSE base[i] + 1]
             v == V((act0 # {} /\ o.res # "Err:Encode") => Len(pings) = 1, "probe-round-did-not-ping-exactly-one-member")
                  \cup V(pings # <<>> => dst \in act1, "Ping-sent-to-a-member-that-is-not-active")
                  \cup V(pings # <<>> => Addr(dst) # Addr(o.pre.id), "Ping-sent-to-the-instance-itself")
                  \cup V(\A i \in act0 : since[i] <= 2 * n - 2, "active-member-not-pinged-within-2n-1-rounds")
         IN [since |-> IF Known(o.pre) = Known(o.post) THEN since ELSE [i \in act1 |-> 0], v |-> v]
=============================================================================
