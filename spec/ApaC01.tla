------------------------------- MODULE ApaC01 -------------------------------
(***************************************************************************)
(* C01, record level, over the FULL incarnation and generation ranges      *)
(* (0..65535) with Apalache: for every known record m of an address and    *)
(* all updates u, w about identities of that address, applying them        *)
(* (Member::can_change + the address-conflict rule of apply_existing_if)   *)
(* is monotone in the precedence order, yields the join, commutes and is   *)
(* idempotent - modulo the incarnation stored next to Down.                *)
(* States: 0 = Alive, 1 = Suspect, 2 = Down; identities of one address are *)
(* ordered by generation g (win_addr_conflict).                            *)
(* Run: apalache-mc check --length=0 --inv=Laws ApaC01.tla                 *)
(***************************************************************************)
EXTENDS Integers

VARIABLES
    \* @type: { g: Int, inc: Int, st: Int };
    m,
    \* @type: { g: Int, inc: Int, st: Int };
    u,
    \* @type: { g: Int, inc: Int, st: Int };
    w

MAXV == 65535

\* @type: ({ g: Int, inc: Int, st: Int }, Int, Int) => Bool;
CanChange(r, inc, st) ==
    IF r.st = 0 THEN (st = 0 /\ inc > r.inc) \/ (st = 1 /\ inc >= r.inc) \/ st = 2
    ELSE IF r.st = 1 THEN (st \in {0, 1} /\ inc > r.inc) \/ st = 2
    ELSE FALSE

\* apply_existing_if with an always-true condition, for a known address
\* @type: ({ g: Int, inc: Int, st: Int }, { g: Int, inc: Int, st: Int }) => { g: Int, inc: Int, st: Int };
Ap(r, x) ==
    IF x.g # r.g
    THEN (IF r.g > x.g THEN r ELSE x)
    ELSE IF CanChange(r, x.inc, x.st) THEN [g |-> r.g, inc |-> x.inc, st |-> x.st] ELSE r

\* @type: ({ g: Int, inc: Int, st: Int }) => { g: Int, inc: Int, st: Int };
Norm(r) == IF r.st = 2 THEN [g |-> r.g, inc |-> 0, st |-> 2] ELSE r

\* @type: ({ g: Int, inc: Int, st: Int }, { g: Int, inc: Int, st: Int }) => Bool;
Leq(r, s) ==
    \/ s.g > r.g
    \/ /\ s.g = r.g
       /\ \/ s.st = 2
          \/ (r.st # 2 /\ (s.inc > r.inc \/ (s.inc = r.inc /\ s.st >= r.st)))

\* @type: ({ g: Int, inc: Int, st: Int }, { g: Int, inc: Int, st: Int }) => { g: Int, inc: Int, st: Int };
Join(r, s) == IF Leq(r, s) THEN s ELSE r

\* @type: ({ g: Int, inc: Int, st: Int }) => Bool;
Dom(r) == r.g \in 0..MAXV /\ r.inc \in 0..MAXV /\ r.st \in 0..2

RecSet == [g : 0..MAXV, inc : 0..MAXV, st : 0..2]
Init == m \in RecSet /\ u \in RecSet /\ w \in RecSet
Next == m' = m /\ u' = u /\ w' = w

Laws ==
    /\ Leq(m, Ap(m, u))                                             \* monotone
    /\ Norm(Ap(m, u)) = Norm(Join(m, u))                            \* the result is the join
    /\ Norm(Ap(Ap(m, u), w)) = Norm(Ap(Ap(m, w), u))                \* order of delivery
    /\ Ap(Ap(m, u), u) = Ap(m, u)                                   \* multiplicity
    /\ (Leq(m, u) /\ Leq(u, w) => Leq(m, w))                        \* the order is transitive
    /\ (Leq(m, u) \/ Leq(u, m))                                     \* ... and total
=============================================================================
