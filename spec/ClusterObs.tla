----------------------------- MODULE ClusterObs -----------------------------
(***************************************************************************)
(* What the cluster-level monitors (C02-C05, C18) read from one recorded   *)
(* call, for both shapes of harness events: complete ones (as used for     *)
(* conformance) and "lite" ones (written by the fault-enumeration drivers, *)
(* which produce far too many runs to keep complete events).               *)
(*                                                                         *)
(* Global history g (one record for the whole cluster):                    *)
(*   hdr     - run parameters (n, period, s2d, ... ) from the reset event  *)
(*   ids     - node -> identity in use                                     *)
(*   status  - node -> "absent" | "up" | "crashed" | "left"                *)
(*   view    - node -> iter_membership_state after its last call           *)
(*   told    - node -> identities that reached it (header / updates)       *)
(*   lastJoin, tFault, listed, downAt, toldDown, rejoined, active ...      *)
(***************************************************************************)
EXTENDS FocaTypes

Lite(e) == "lite" \in DOMAIN e

EvNotes(e) == IF Lite(e) THEN e.notes
              ELSE LET S == SelectSeq(e.out, LAMBDA x : x.k = "notify") IN [i \in DOMAIN S |-> S[i].n]
EvSendKinds(e) == IF Lite(e) THEN e.sk
                  ELSE LET S == SelectSeq(e.out, LAMBDA x : x.k = "send") IN [i \in DOMAIN S |-> S[i].d.h.msg.k]
EvSendDsts(e) == IF Lite(e) THEN e.sd
                 ELSE LET S == SelectSeq(e.out, LAMBDA x : x.k = "send") IN [i \in DOMAIN S |-> S[i].dst]
\* number of members carried by each datagram sent (-1: not recorded)
EvSendCounts(e) == IF Lite(e) THEN (IF "sm" \in DOMAIN e THEN e.sm ELSE [i \in DOMAIN e.sk |-> -1])
                   ELSE LET S == SelectSeq(e.out, LAMBDA x : x.k = "send") IN [i \in DOMAIN S |-> Len(S[i].d.mem)]
EvKind(e) == IF Lite(e) THEN e.k
             ELSE IF e.call = "data" THEN e.args.h.msg.k ELSE IF e.call = "timer" THEN e.args.k ELSE ""
EvFrom(e) == IF Lite(e) THEN e.from ELSE IF e.call = "data" /\ e.args.hok THEN e.args.h.src ELSE NoId
EvDin(e) == IF Lite(e) THEN e.din ELSE IF e.call = "data" THEN e.args.mem ELSE <<>>
EvId(e) == IF Lite(e) THEN e.id ELSE e.pub.id
EvAcc(e) == IF Lite(e) THEN e.acc ELSE e.call = "data" /\ e.args.hok /\ e.args.h.dst = e.pub.id
EvSame(e) == Lite(e) /\ e.same
EvState(e) == IF Lite(e) THEN e.state ELSE e.pub.state

HasNote(e, k) == \E i \in DOMAIN EvNotes(e) : EvNotes(e)[i].k = k
NotesOf(e, k) == {EvNotes(e)[i].id : i \in {j \in DOMAIN EvNotes(e) : EvNotes(e)[j].k = k}}

ActiveOf(state) == {state[i].id : i \in {j \in DOMAIN state : state[j].st # "D"}}
RowFor(state, id) == LET S == {i \in DOMAIN state : state[i].id = id} IN
                     IF S = {} THEN <<>> ELSE <<state[CHOOSE i \in S : TRUE]>>

Vc(cond, name) == IF cond THEN {} ELSE {name}

GInit(hdr) ==
    [hdr |-> hdr, ids |-> <<>>, status |-> <<>>, view |-> <<>>, told |-> <<>>,
     lastJoin |-> 0, formed |-> FALSE,
     tFault |-> -1, failed |-> {}, listed |-> <<>>, downAt |-> <<>>, leaver |-> {},
     tDrop |-> -1, tHeal |-> -1, toldDown |-> {}, rejoined |-> {}, defunct |-> {}, activeAfter |-> {},
     deliveries |-> 0, maxBurst |-> 0,
     feedshort |-> FALSE]     \* some Feed listed fewer members than its sender had active ones (receiver excluded)

Up(g) == {n \in DOMAIN g.status : g.status[n] = "up"}

\* bookkeeping common to all cluster monitors
GNew(g, e) ==
    [g EXCEPT !.ids = (e.node :> e.pub.id) @@ @,
              !.status = (e.node :> "up") @@ @,
              !.view = (e.node :> <<>>) @@ @,
              !.told = (e.node :> {}) @@ @]

GCall(g, e) ==
    LET x == e.node
        src == EvFrom(e)
        din == EvDin(e)
        heard == (IF e.call = "data" /\ e.res = "Ok" /\ src # NoId THEN {src} ELSE {})
                 \cup (IF e.call = "data" /\ e.res = "Ok" THEN {din[i].id : i \in DOMAIN din} ELSE {})
        after == IF EvSame(e) THEN g.view[x] ELSE EvState(e)
        K == EvSendKinds(e)
        short == \E i \in DOMAIN K :
                    /\ K[i] = "Feed" /\ EvSendCounts(e)[i] >= 0
                    /\ EvSendCounts(e)[i] < Cardinality(ActiveOf(after) \ {EvSendDsts(e)[i]})
    IN [g EXCEPT !.ids = (x :> EvId(e)) @@ @,
                 !.view = IF EvSame(e) THEN @ ELSE (x :> EvState(e)) @@ @,
                 !.told = (x :> (@[x] \cup heard)) @@ @,
                 !.feedshort = @ \/ short]
=============================================================================
